//! C04 — the duplicate-key policy is applied exactly, for keys of every YAML kind.
//!
//! Every verdict is derived from the raw parser's tree of the generated document
//! (aliases expanded by anchor id), never from what the generator intended:
//!   * a key *repeats* when an earlier own entry of the same mapping has the same
//!     key node (same structure, scalar text and tag; style does not matter);
//!   * `Error`      -> `Err(DuplicateMappingKey)` whose line/column is the raw parser's start
//!                     mark of the first repeated key in streaming order (its *second* occurrence;
//!                     for a key written as an alias that is the alias token);
//!   * `FirstWins`  -> every target equals the document with every later entry deleted;
//!   * `LastWins`   -> overwriting maps equal the document with every earlier entry deleted;
//!                     the ordered pair list (`Val`) receives every entry, in order, which is
//!                     checked against the same entries written as a sequence of one-pair mappings;
//!   * no repeats   -> identical results under the three policies.
//! The value after a repeated key is varied (scalar, empty containers, nests, 10k-element
//! sequences, alias to a large anchor, mapping with its own duplicates and merges) and every
//! sibling carries a unique token, so a cursor that skips too little or too much shows up as
//! a wrong value.

use saphyr_parser::ScalarStyle;
use serde_json::json;
use std::collections::{BTreeSet, HashMap, HashSet};
use vcore::reftree::{self, Pos, RNode, render_checked};
use vcore::rng::{Rng, fnv_parts};
use vcore::run::{Finish, Run, Tier, par_range, par_range_chunk};
use vcore::targets::{self, Outcome, same_value_or_both_err, show};
use vcore::val::Val;
use vcore::ydoc::{Node, RenderOpts};

/// The last four *ignore* (parts of) the document: `IgnoredAny` at the root, as map values, as
/// sequence items, and behind the undeclared fields of a derived struct that declares only `k2`
/// (`Rec` also ignores what it does not declare). The policy holds for every target, so a repeated key
/// inside an ignored value must still fail under `Error` and be read through under First/LastWins.
const TARGETS: [&str; 10] = ["Val", "MapValVal", "MapStrVal", "Rec", "json", "Ignored", "MapStrIgnored", "VecIgnored", "OnlyK2", "Outer"];
const IGNORING: [&str; 6] = ["Rec", "Ignored", "MapStrIgnored", "VecIgnored", "OnlyK2", "Outer"];

/// Typed positions below the root (wraps 3..=9 of the generator put the test mapping there).
#[derive(Debug, serde::Deserialize)]
#[allow(dead_code)]
struct W3 {
    #[serde(default)]
    k1: Option<Val>,
    #[serde(default)]
    k2: Option<Val>,
    #[serde(default)]
    k3: Option<Val>,
}
#[derive(Debug, serde::Deserialize)]
#[allow(dead_code)]
enum Ext {
    St {
        #[serde(default)]
        k1: Option<Val>,
        #[serde(default)]
        k2: Option<Val>,
        #[serde(default)]
        k3: Option<Val>,
    },
}
#[derive(Debug, serde::Deserialize)]
#[serde(tag = "t")]
#[allow(dead_code)]
enum Int {
    A {
        #[serde(default)]
        k1: Option<Val>,
        #[serde(default)]
        k2: Option<Val>,
        #[serde(default)]
        k3: Option<Val>,
    },
}
#[derive(Debug, serde::Deserialize)]
#[allow(dead_code)]
struct Flat {
    #[serde(default)]
    k1: Option<Val>,
    #[serde(flatten)]
    rest: std::collections::BTreeMap<String, Val>,
}
#[derive(Debug, serde::Deserialize)]
#[serde(untagged)]
#[allow(dead_code)]
enum Unt {
    W(W3),
    Other(Val),
}
#[derive(Debug, serde::Deserialize)]
#[allow(dead_code)]
struct Outer {
    #[serde(default)]
    items: Vec<W3>,
    #[serde(default)]
    inner: Option<W3>,
    #[serde(default)]
    byname: std::collections::BTreeMap<String, W3>,
    #[serde(default)]
    e: Option<Ext>,
    #[serde(default)]
    it: Option<Int>,
    #[serde(default)]
    flat: Option<Flat>,
    #[serde(default)]
    un: Option<Unt>,
}

#[derive(Debug, serde::Deserialize)]
#[allow(dead_code)]
struct OnlyK2 {
    #[serde(default)]
    k2: Option<Val>,
}

fn local<T: serde::de::DeserializeOwned + std::fmt::Debug>(doc: &str, policy: usize) -> Result<Outcome, String> {
    vcore::obs::catch(|| serde_saphyr::from_str_with_options::<T>(doc, opts(policy)).map(|v| format!("{v:?}")))
}

const OPTVEC_NAMES: [&str; 4] = [
    "limits-off",
    "limits-off+no_schema+strict_booleans+legacy_octal+ignore_binary_tag",
    "limits-off+no-snippet+angle_conversions",
    "Options::default() for documents below 20 kB (else limits-off)",
];

thread_local! {
    /// option vector of the document being checked (every call of one relation uses the same one)
    static OPTVEC: std::cell::Cell<usize> = const { std::cell::Cell::new(0) };
}

fn opts(policy: usize) -> serde_saphyr::Options {
    let vec = OPTVEC.with(|c| c.get());
    let mut o = if vec == 3 { serde_saphyr::Options::default() } else { vcore::errs::unlimited_options() };
    #[allow(deprecated)]
    {
        o.duplicate_keys = match policy {
            1 => serde_saphyr::DuplicateKeyPolicy::FirstWins,
            2 => serde_saphyr::DuplicateKeyPolicy::LastWins,
            _ => serde_saphyr::DuplicateKeyPolicy::Error,
        };
        match vec {
            1 => {
                o.no_schema = true;
                o.strict_booleans = true;
                o.legacy_octal_numbers = true;
                o.ignore_binary_tag_for_string = true;
            }
            2 => {
                o.with_snippet = false;
                o.angle_conversions = true;
            }
            _ => {}
        }
    }
    o
}

fn run_target(name: &str, doc: &str, policy: usize) -> Result<Outcome, String> {
    match name {
        "MapStrIgnored" => return local::<std::collections::BTreeMap<String, serde::de::IgnoredAny>>(doc, policy),
        "VecIgnored" => return local::<Vec<serde::de::IgnoredAny>>(doc, policy),
        "OnlyK2" => return local::<OnlyK2>(doc, policy),
        "Outer" => return local::<Outer>(doc, policy),
        _ => {}
    }
    let t = targets::by_name(name).unwrap();
    vcore::obs::catch(|| (t.from_str)(doc, opts(policy)))
}

fn run_val(doc: &str, policy: usize) -> Result<Result<Val, serde_saphyr::Error>, String> {
    vcore::obs::catch(|| serde_saphyr::from_str_with_options::<Val>(doc, opts(policy)))
}

/// Thread-local accumulation of counters / observations (one lock per document instead of one per count).
mod acc {
    use std::cell::RefCell;
    use std::collections::{BTreeMap, HashSet};
    thread_local! {
        static C: RefCell<BTreeMap<&'static str, u64>> = const { RefCell::new(BTreeMap::new()) };
        static O: RefCell<HashSet<(&'static str, String)>> = RefCell::new(HashSet::new());
    }
    pub fn count(k: &'static str, n: u64) {
        C.with(|c| *c.borrow_mut().entry(k).or_insert(0) += n);
    }
    pub fn observe(run: &vcore::run::Run, set: &'static str, label: &str) {
        let new = O.with(|o| o.borrow_mut().insert((set, label.to_string())));
        if new {
            run.observe(set, label);
        }
    }
    pub fn flush(run: &vcore::run::Run) {
        let m = C.with(|c| std::mem::take(&mut *c.borrow_mut()));
        if !m.is_empty() {
            run.count_map(&m);
        }
    }
}

/// Overwriting target at *every* level: like `Val`, but each mapping is an overwriting map
/// (a later pair with an equal key replaces the earlier value).
#[derive(Debug, PartialEq)]
struct OVal(Val);

impl<'de> serde::Deserialize<'de> for OVal {
    fn deserialize<D: serde::Deserializer<'de>>(d: D) -> Result<OVal, D::Error> {
        struct V;
        impl<'de> serde::de::Visitor<'de> for V {
            type Value = OVal;
            fn expecting(&self, f: &mut std::fmt::Formatter) -> std::fmt::Result {
                f.write_str("any YAML value")
            }
            fn visit_unit<E>(self) -> Result<OVal, E> {
                Ok(OVal(Val::Null))
            }
            fn visit_none<E>(self) -> Result<OVal, E> {
                Ok(OVal(Val::Null))
            }
            fn visit_some<D: serde::Deserializer<'de>>(self, d: D) -> Result<OVal, D::Error> {
                <OVal as serde::Deserialize>::deserialize(d)
            }
            fn visit_bool<E>(self, v: bool) -> Result<OVal, E> {
                Ok(OVal(Val::Bool(v)))
            }
            fn visit_i64<E>(self, v: i64) -> Result<OVal, E> {
                Ok(OVal(Val::Int(v as i128)))
            }
            fn visit_u64<E>(self, v: u64) -> Result<OVal, E> {
                Ok(OVal(Val::Int(v as i128)))
            }
            fn visit_i128<E>(self, v: i128) -> Result<OVal, E> {
                Ok(OVal(Val::Int(v)))
            }
            fn visit_f64<E>(self, v: f64) -> Result<OVal, E> {
                Ok(OVal(Val::f(v)))
            }
            fn visit_str<E>(self, v: &str) -> Result<OVal, E> {
                Ok(OVal(Val::Str(v.to_string())))
            }
            fn visit_string<E>(self, v: String) -> Result<OVal, E> {
                Ok(OVal(Val::Str(v)))
            }
            fn visit_bytes<E>(self, v: &[u8]) -> Result<OVal, E> {
                Ok(OVal(Val::Bytes(v.to_vec())))
            }
            fn visit_seq<A: serde::de::SeqAccess<'de>>(self, mut a: A) -> Result<OVal, A::Error> {
                let mut v = Vec::new();
                while let Some(x) = a.next_element::<OVal>()? {
                    v.push(x.0);
                }
                Ok(OVal(Val::Seq(v)))
            }
            fn visit_map<A: serde::de::MapAccess<'de>>(self, mut a: A) -> Result<OVal, A::Error> {
                let mut m: std::collections::BTreeMap<Val, Val> = std::collections::BTreeMap::new();
                while let Some(k) = a.next_key::<OVal>()? {
                    let x = a.next_value::<OVal>()?;
                    m.insert(k.0, x.0);
                }
                Ok(OVal(Val::Map(m.into_iter().collect())))
            }
        }
        d.deserialize_any(V)
    }
}

fn run_oval(doc: &str, policy: usize) -> Result<Outcome, String> {
    vcore::obs::catch(|| serde_saphyr::from_str_with_options::<OVal>(doc, opts(policy)).map(|v| format!("{:?}", v.0)))
}

// ------------------------------------------------------------------ reference model on the raw tree

fn is_merge_key(k: &RNode) -> bool {
    matches!(k, RNode::Scalar { value, style: ScalarStyle::Plain, tag: None, .. } if value == "<<")
}

/// Same key node: same structure, scalar text and scalar tag. Style, anchors and positions
/// do not matter. (Tags on container keys are flagged as unspecified elsewhere.)
fn key_eq(a: &RNode, b: &RNode) -> bool {
    match (a, b) {
        (RNode::Scalar { value: v1, tag: t1, .. }, RNode::Scalar { value: v2, tag: t2, .. }) => v1 == v2 && t1 == t2,
        (RNode::Seq { items: i1, .. }, RNode::Seq { items: i2, .. }) => {
            i1.len() == i2.len() && i1.iter().zip(i2).all(|(x, y)| key_eq(x, y))
        }
        (RNode::Map { entries: e1, .. }, RNode::Map { entries: e2, .. }) => {
            e1.len() == e2.len() && e1.iter().zip(e2).all(|((k1, v1), (k2, v2))| key_eq(k1, k2) && key_eq(v1, v2))
        }
        _ => false,
    }
}

/// Equal when the entry order of mappings is disregarded (YAML's own notion of mapping equality).
fn key_eq_unordered(a: &RNode, b: &RNode) -> bool {
    match (a, b) {
        (RNode::Scalar { value: v1, tag: t1, .. }, RNode::Scalar { value: v2, tag: t2, .. }) => v1 == v2 && t1 == t2,
        (RNode::Seq { items: i1, .. }, RNode::Seq { items: i2, .. }) => {
            i1.len() == i2.len() && i1.iter().zip(i2).all(|(x, y)| key_eq_unordered(x, y))
        }
        (RNode::Map { entries: e1, .. }, RNode::Map { entries: e2, .. }) => {
            e1.len() == e2.len()
                && e1.iter().all(|(k1, v1)| e2.iter().any(|(k2, v2)| key_eq_unordered(k1, k2) && key_eq_unordered(v1, v2)))
                && e2.iter().all(|(k2, v2)| e1.iter().any(|(k1, v1)| key_eq_unordered(k1, k2) && key_eq_unordered(v1, v2)))
        }
        _ => false,
    }
}

fn key_eq_ignoring_leaf_tags(a: &RNode, b: &RNode) -> bool {
    match (a, b) {
        (RNode::Scalar { value: v1, .. }, RNode::Scalar { value: v2, .. }) => v1 == v2,
        (RNode::Seq { items: i1, .. }, RNode::Seq { items: i2, .. }) => {
            i1.len() == i2.len() && i1.iter().zip(i2).all(|(x, y)| key_eq_ignoring_leaf_tags(x, y))
        }
        (RNode::Map { entries: e1, .. }, RNode::Map { entries: e2, .. }) => {
            e1.len() == e2.len()
                && e1.iter().zip(e2).all(|((k1, v1), (k2, v2))| key_eq_ignoring_leaf_tags(k1, k2) && key_eq_ignoring_leaf_tags(v1, v2))
        }
        _ => false,
    }
}

fn definitely_string(t: &str) -> bool {
    let lower = t.to_ascii_lowercase();
    !t.is_empty()
        && t.chars().next().is_some_and(|c| c.is_ascii_alphabetic())
        && t.chars().all(|c| c.is_ascii_alphanumeric() || c == '_')
        && !["true", "false", "null", "yes", "no", "on", "off", "y", "n", "nan", "inf"].contains(&lower.as_str())
}

/// For two equal keys: does some leaf differ plain-vs-quoted where the plain form may not be a string?
fn resolution_may_differ(a: &RNode, b: &RNode) -> bool {
    match (a, b) {
        (RNode::Scalar { value, style: s1, tag, .. }, RNode::Scalar { style: s2, .. }) => {
            let p1 = matches!(s1, ScalarStyle::Plain);
            let p2 = matches!(s2, ScalarStyle::Plain);
            p1 != p2 && tag.as_deref() != Some("!!str") && !definitely_string(value)
        }
        (RNode::Seq { items: i1, .. }, RNode::Seq { items: i2, .. }) => i1.iter().zip(i2).any(|(x, y)| resolution_may_differ(x, y)),
        (RNode::Map { entries: e1, .. }, RNode::Map { entries: e2, .. }) => {
            e1.iter().zip(e2).any(|((k1, v1), (k2, v2))| resolution_may_differ(k1, k2) || resolution_may_differ(v1, v2))
        }
        _ => false,
    }
}

fn with_pos(mut n: RNode, p: Pos) -> RNode {
    match &mut n {
        RNode::Scalar { pos, .. } | RNode::Seq { pos, .. } | RNode::Map { pos, .. } | RNode::Alias { pos, .. } => *pos = p,
    }
    n
}

/// Alias expansion by anchor id in which the copy that replaces an alias carries the
/// position of the *alias token* at its top node (use site).
fn expand_use(n: &RNode) -> Option<RNode> {
    fn go(n: &RNode, env: &mut HashMap<usize, Option<RNode>>) -> Option<RNode> {
        match n {
            RNode::Alias { id, pos } => env.get(id)?.clone().map(|c| with_pos(c, *pos)),
            RNode::Scalar { value, style, tag, anchor, pos } => {
                let out = RNode::Scalar { value: value.clone(), style: *style, tag: tag.clone(), anchor: 0, pos: *pos };
                if *anchor != 0 {
                    env.insert(*anchor, Some(out.clone()));
                }
                Some(out)
            }
            RNode::Seq { items, tag, anchor, pos } => {
                if *anchor != 0 {
                    env.insert(*anchor, None);
                }
                let mut v = Vec::with_capacity(items.len());
                for i in items {
                    v.push(go(i, env)?);
                }
                let out = RNode::Seq { items: v, tag: tag.clone(), anchor: 0, pos: *pos };
                if *anchor != 0 {
                    env.insert(*anchor, Some(out.clone()));
                }
                Some(out)
            }
            RNode::Map { entries, tag, anchor, pos } => {
                if *anchor != 0 {
                    env.insert(*anchor, None);
                }
                let mut v = Vec::with_capacity(entries.len());
                for (k, x) in entries {
                    let k2 = go(k, env)?;
                    let x2 = go(x, env)?;
                    v.push((k2, x2));
                }
                let out = RNode::Map { entries: v, tag: tag.clone(), anchor: 0, pos: *pos };
                if *anchor != 0 {
                    env.insert(*anchor, Some(out.clone()));
                }
                Some(out)
            }
        }
    }
    go(n, &mut HashMap::new())
}

fn kind_name(n: &RNode) -> &'static str {
    match n {
        RNode::Scalar { .. } => "scalar",
        RNode::Seq { .. } => "sequence",
        RNode::Map { .. } => "mapping",
        RNode::Alias { .. } => "alias",
    }
}

fn value_class(raw: Option<&RNode>, exp: &RNode) -> &'static str {
    if matches!(raw, Some(RNode::Alias { .. })) {
        return "alias";
    }
    match exp {
        RNode::Scalar { .. } => "scalar",
        RNode::Seq { items, .. } if items.is_empty() => "empty-seq",
        RNode::Map { entries, .. } if entries.is_empty() => "empty-map",
        RNode::Seq { .. } => "seq",
        RNode::Map { .. } => "map",
        RNode::Alias { .. } => "alias",
    }
}

#[derive(Debug, Clone)]
struct FirstRepeat {
    /// where the error must point: start mark of the repeated key at its second occurrence
    expect: Pos,
    /// the repeated key is written as an alias; `def` is the anchored node it stands for
    via_alias: bool,
    def: Pos,
    first_occurrence: Pos,
    in_replay: bool,
    in_nullmap_value: bool,
    depth: usize,
    key_kind: &'static str,
    discarded_value: &'static str,
}

#[derive(Default, Debug)]
struct Analysis {
    repeats: usize,
    entry_after_repeat: bool,
    first: Option<FirstRepeat>,
    unspecified: BTreeSet<&'static str>,
    has_merge: bool,
    complex_key: bool,
    root_is_map: bool,
    root_is_seq: bool,
    root_keys_plain_scalars: bool,
    custom_tag_lookalike: bool,
    /// some entry is keyed by a one-entry mapping with a null-like key
    has_nullmap_key: bool,
    /// two container keys of one mapping are equal once the tags of their scalar leaves are ignored
    container_leaf_tag_lookalike: bool,
    /// some repeated key is written plain at one occurrence and quoted at another on a leaf whose
    /// plain form a typed target may resolve to a non-string (`1` vs "1"): the target's own key
    /// equality then differs from YAML key identity, so "overwriting" says nothing
    repeat_differs_in_resolution: bool,
    key_kinds: BTreeSet<&'static str>,
    discarded_values: BTreeSet<&'static str>,
}

struct Ctx {
    /// inside the value of an entry whose key is a one-entry mapping with a null-like key (`{~: x}: value`)
    in_nullmap_value: bool,
    in_replay: bool,
    in_source: bool,
    in_key: bool,
    depth: usize,
}

/// A key that is a one-entry mapping whose own key is null-like: `{~: x}`, `{null: x}`, `{: x}`.
fn is_nullmap_key(k: &RNode) -> bool {
    match k {
        RNode::Map { entries, .. } if entries.len() == 1 => match &entries[0].0 {
            RNode::Scalar { value, tag, .. } => {
                tag.as_deref() == Some("!!null") || value.is_empty() || value == "~" || value.eq_ignore_ascii_case("null")
            }
            _ => false,
        },
        _ => false,
    }
}

/// The repeated key sits in the value of an entry whose key is `{null: x}`; the deserializer replaces that
/// entry's value by `x` and never reads the written value, so nothing inside it is checked.
const NULLMAP_SIG: &str = "C04:error-policy:repeat-inside-value-of-entry-keyed-by-one-entry-null-mapping";

/// Same place, value now read: the repeat is found, but reported at the start of that value (the replay
/// buffer's reference location), in nested cases wrapped in `AliasError`, instead of at the repeated key.
const NULLMAP_LOC_SIG: &str = "C04:error-location:repeat-inside-value-of-entry-keyed-by-one-entry-null-mapping:reported-at-value-start";

fn is_custom_tag(t: &Option<String>) -> bool {
    matches!(t, Some(s) if s.starts_with('!') && !s.starts_with("!!") && s.len() > 1)
}

/// Walk raw / use-site expansion / definition-site expansion in parallel, in streaming order.
fn analyse(raw: Option<&RNode>, usex: &RNode, defx: &RNode, c: &Ctx, an: &mut Analysis) {
    let replay_below = c.in_replay || matches!(raw, Some(RNode::Alias { .. }));
    match (usex, defx) {
        (RNode::Map { entries, tag, .. }, RNode::Map { entries: dentries, .. }) => {
            if c.in_key && tag.is_some() {
                an.unspecified.insert("tagged-container-key");
            }
            let rentries = match raw {
                Some(RNode::Map { entries: re, .. }) if re.len() == entries.len() => Some(re),
                _ => None,
            };
            for (i, (k, v)) in entries.iter().enumerate() {
                let rk = rentries.map(|re| &re[i].0);
                let rv = rentries.map(|re| &re[i].1);
                let (dk, dv) = (&dentries[i].0, &dentries[i].1);
                if is_merge_key(k) {
                    an.has_merge = true;
                    let c2 = Ctx { in_nullmap_value: c.in_nullmap_value, in_replay: replay_below, in_source: true, in_key: c.in_key, depth: c.depth + 1 };
                    analyse(rv, v, dv, &c2, an);
                    continue;
                }
                if !matches!(k, RNode::Scalar { .. }) {
                    an.complex_key = true;
                }
                if is_nullmap_key(k) {
                    an.has_nullmap_key = true;
                }
                let earlier = entries[..i].iter().find(|(k2, _)| !is_merge_key(k2) && key_eq(k2, k));
                if let Some((k0, _)) = earlier {
                    an.repeats += 1;
                    if entries[..i].iter().any(|(k2, _)| !is_merge_key(k2) && key_eq(k2, k) && resolution_may_differ(k2, k)) {
                        an.repeat_differs_in_resolution = true;
                    }
                    if i + 1 < entries.len() {
                        an.entry_after_repeat = true;
                    }
                    if c.in_source {
                        an.unspecified.insert("repeated-key-inside-merge-source");
                    }
                    if c.in_key {
                        an.unspecified.insert("repeated-key-inside-a-key");
                    }
                    an.key_kinds.insert(kind_name(k));
                    an.discarded_values.insert(value_class(rv, v));
                    if an.first.is_none() {
                        an.first = Some(FirstRepeat {
                            expect: k.pos(),
                            via_alias: matches!(rk, Some(RNode::Alias { .. })),
                            def: dk.pos(),
                            first_occurrence: k0.pos(),
                            in_replay: replay_below,
                            in_nullmap_value: c.in_nullmap_value,
                            depth: c.depth,
                            key_kind: kind_name(k),
                            discarded_value: value_class(rv, v),
                        });
                    }
                } else if !matches!(k, RNode::Scalar { .. })
                    && entries[..i].iter().any(|(k2, _)| !is_merge_key(k2) && key_eq_ignoring_leaf_tags(k2, k))
                {
                    an.container_leaf_tag_lookalike = true;
                } else if !matches!(k, RNode::Scalar { .. })
                    && entries[..i].iter().any(|(k2, _)| !is_merge_key(k2) && key_eq_unordered(k2, k))
                {
                    // same entries in another order inside a mapping (key): "same structure" does not say
                    an.unspecified.insert("mapping-keys-equal-up-to-entry-order");
                } else if let RNode::Scalar { value, tag, .. } = k {
                    // keys that differ only in a custom tag (the statement: different tag = different key)
                    if is_custom_tag(tag)
                        && entries[..i].iter().any(|(k2, _)| matches!(k2, RNode::Scalar { value: v2, tag: t2, .. } if v2 == value && is_custom_tag(t2) && t2 != tag))
                    {
                        an.custom_tag_lookalike = true;
                    }
                }
                let ck = Ctx { in_nullmap_value: c.in_nullmap_value, in_replay: replay_below, in_source: c.in_source, in_key: true, depth: c.depth + 1 };
                analyse(rk, k, dk, &ck, an);
                let cv = Ctx { in_nullmap_value: c.in_nullmap_value || is_nullmap_key(k), in_replay: replay_below, in_source: c.in_source, in_key: c.in_key, depth: c.depth + 1 };
                analyse(rv, v, dv, &cv, an);
            }
        }
        (RNode::Seq { items, tag, .. }, RNode::Seq { items: ditems, .. }) => {
            if c.in_key && tag.is_some() {
                an.unspecified.insert("tagged-container-key");
            }
            let ritems = match raw {
                Some(RNode::Seq { items: ri, .. }) if ri.len() == items.len() => Some(ri),
                _ => None,
            };
            for (i, it) in items.iter().enumerate() {
                let c2 = Ctx { in_nullmap_value: c.in_nullmap_value, in_replay: replay_below, in_source: c.in_source, in_key: c.in_key, depth: c.depth + 1 };
                analyse(ritems.map(|r| &r[i]), it, &ditems[i], &c2, an);
            }
        }
        _ => {}
    }
}

fn analyse_doc(raw: &RNode, usex: &RNode, defx: &RNode) -> Analysis {
    let mut an = Analysis::default();
    an.root_is_seq = matches!(usex, RNode::Seq { .. });
    if let RNode::Map { entries, .. } = usex {
        an.root_is_map = true;
        an.root_keys_plain_scalars = entries.iter().all(|(k, _)| matches!(k, RNode::Scalar { tag: None, .. }));
    }
    analyse(Some(raw), usex, defx, &Ctx { in_nullmap_value: false, in_replay: false, in_source: false, in_key: false, depth: 0 }, &mut an);
    an
}

/// The document with every later (keep_first) / every earlier (!keep_first) entry of a
/// repeated key deleted, in every mapping. Merge entries are never touched.
fn dedup(n: &RNode, keep_first: bool) -> RNode {
    match n {
        RNode::Map { entries, tag, pos, .. } => {
            let mut out = Vec::new();
            for (i, (k, v)) in entries.iter().enumerate() {
                if !is_merge_key(k) {
                    let other: &[(RNode, RNode)] = if keep_first { &entries[..i] } else { &entries[i + 1..] };
                    if other.iter().any(|(k2, _)| !is_merge_key(k2) && key_eq(k2, k)) {
                        continue;
                    }
                }
                out.push((dedup(k, keep_first), dedup(v, keep_first)));
            }
            RNode::Map { entries: out, tag: tag.clone(), anchor: 0, pos: *pos }
        }
        RNode::Seq { items, tag, pos, .. } => {
            RNode::Seq { items: items.iter().map(|i| dedup(i, keep_first)).collect(), tag: tag.clone(), anchor: 0, pos: *pos }
        }
        other => other.clone(),
    }
}

/// `dedup(.., false)` applied to the root mapping only (what a `BTreeMap<_, Val>` overwrites).
fn dedup_last_root(n: &RNode) -> RNode {
    match n {
        RNode::Map { entries, tag, pos, .. } => {
            let mut out = Vec::new();
            for (i, (k, v)) in entries.iter().enumerate() {
                if !is_merge_key(k) && entries[i + 1..].iter().any(|(k2, _)| !is_merge_key(k2) && key_eq(k2, k)) {
                    continue;
                }
                out.push((k.clone(), v.clone()));
            }
            RNode::Map { entries: out, tag: tag.clone(), anchor: 0, pos: *pos }
        }
        other => other.clone(),
    }
}

fn map_has_repeat(entries: &[(RNode, RNode)]) -> bool {
    entries.iter().enumerate().any(|(i, (k, _))| !is_merge_key(k) && entries[..i].iter().any(|(k2, _)| !is_merge_key(k2) && key_eq(k2, k)))
}

/// Every merge-free mapping with a repeated key is rewritten as a sequence of one-pair
/// mappings (same entries, same order); `split` receives the paths of those sequences.
/// Mappings with merge entries are left alone, together with everything below them.
fn split_maps(n: &RNode, path: &mut Vec<usize>, split: &mut HashSet<Vec<usize>>) -> RNode {
    match n {
        RNode::Map { entries, tag, pos, .. } => {
            if entries.iter().any(|(k, _)| is_merge_key(k)) {
                return n.clone();
            }
            if map_has_repeat(entries) {
                split.insert(path.clone());
                let mut items = Vec::new();
                for (i, (k, v)) in entries.iter().enumerate() {
                    path.push(i);
                    path.push(0);
                    let k2 = split_maps(k, path, split);
                    path.pop();
                    path.push(1);
                    let v2 = split_maps(v, path, split);
                    path.pop();
                    path.pop();
                    items.push(RNode::Map { entries: vec![(k2, v2)], tag: None, anchor: 0, pos: *pos });
                }
                RNode::Seq { items, tag: None, anchor: 0, pos: *pos }
            } else {
                let mut out = Vec::new();
                for (i, (k, v)) in entries.iter().enumerate() {
                    path.push(2 * i);
                    let k2 = split_maps(k, path, split);
                    path.pop();
                    path.push(2 * i + 1);
                    let v2 = split_maps(v, path, split);
                    path.pop();
                    out.push((k2, v2));
                }
                RNode::Map { entries: out, tag: tag.clone(), anchor: 0, pos: *pos }
            }
        }
        RNode::Seq { items, tag, pos, .. } => {
            let mut out = Vec::new();
            for (i, it) in items.iter().enumerate() {
                path.push(i);
                out.push(split_maps(it, path, split));
                path.pop();
            }
            RNode::Seq { items: out, tag: tag.clone(), anchor: 0, pos: *pos }
        }
        other => other.clone(),
    }
}

/// Inverse of `split_maps` on the value side. `None` when a split position does not hold a
/// sequence of one-pair maps.
fn unsplit(v: &Val, path: &mut Vec<usize>, split: &HashSet<Vec<usize>>) -> Option<Val> {
    if split.contains(path) {
        let Val::Seq(items) = v else { return None };
        let mut pairs = Vec::new();
        for (i, it) in items.iter().enumerate() {
            let Val::Map(m) = it else { return None };
            if m.len() != 1 {
                return None;
            }
            path.push(i);
            path.push(0);
            let k = unsplit(&m[0].0, path, split);
            path.pop();
            path.push(1);
            let x = unsplit(&m[0].1, path, split);
            path.pop();
            path.pop();
            pairs.push((k?, x?));
        }
        return Some(Val::Map(pairs));
    }
    match v {
        Val::Seq(items) => {
            let mut out = Vec::new();
            for (i, it) in items.iter().enumerate() {
                path.push(i);
                let r = unsplit(it, path, split);
                path.pop();
                out.push(r?);
            }
            Some(Val::Seq(out))
        }
        Val::Map(m) => {
            let mut out = Vec::new();
            for (i, (k, x)) in m.iter().enumerate() {
                path.push(2 * i);
                let k2 = unsplit(k, path, split);
                path.pop();
                path.push(2 * i + 1);
                let x2 = unsplit(x, path, split);
                path.pop();
                out.push((k2?, x2?));
            }
            Some(Val::Map(out))
        }
        other => Some(other.clone()),
    }
}

fn render_ref(run: &Run, t: &RNode, flow: bool, what: &str) -> Option<(String, RNode)> {
    let ro = RenderOpts::new();
    let r = render_checked(&t.to_node(flow), &ro).or_else(|| render_checked(&t.to_node(!flow), &ro));
    if r.is_none() {
        run.inconclusive(&format!("generator-invalid: {what} not parsed as intended"));
    }
    r
}

fn cls(a: &Outcome, b: &Outcome) -> &'static str {
    match (a, b) {
        (Ok(_), Ok(_)) => "ok-vs-ok",
        (Ok(_), Err(_)) => "ok-vs-err",
        (Err(_), Ok(_)) => "err-vs-ok",
        _ => "err-vs-err",
    }
}

fn clip(s: &str) -> String {
    if s.len() > 600 {
        let mut e = 600;
        while !s.is_char_boundary(e) {
            e -= 1;
        }
        format!("{}… ({} bytes)", &s[..e], s.len())
    } else {
        s.to_string()
    }
}

/// `run.violation` with a cap per signature: a defect of the library that hits a whole class of
/// generated documents would otherwise be reported tens of thousands of times. Every occurrence
/// is still counted (`occurrences/<signature>`).
fn report(run: &Run, sig: &str, case: serde_json::Value, detail: impl Into<String>) {
    use std::sync::Mutex;
    static SEEN: Mutex<Option<std::collections::HashMap<String, u64>>> = Mutex::new(None);
    let n = {
        let mut g = SEEN.lock().unwrap();
        let m = g.get_or_insert_with(Default::default);
        let e = m.entry(sig.to_string()).or_insert(0);
        *e += 1;
        *e
    };
    if n <= 40 {
        run.violation(sig, case, detail);
    } else if n % 1000 == 0 {
        run.count(&format!("occurrences_beyond_first_40/{sig}"), 1000);
    }
}

// ------------------------------------------------------------------ the check of one document

fn check_doc(run: &Run, doc: &str, flow: bool, class: &str, optvec: usize) {
    // the default-limits vector only for documents that are far inside every default limit
    let optvec = if optvec == 3 && doc.len() >= 20_000 { 0 } else { optvec % 4 };
    OPTVEC.with(|c| c.set(optvec));
    let Some(raw) = reftree::parse_one(doc) else {
        run.inconclusive("generator-invalid: document rejected by the raw parser");
        return;
    };
    let (Some(usex), Some(defx)) = (expand_use(&raw), raw.expand()) else {
        run.inconclusive("generator-invalid: unresolved alias");
        return;
    };
    let an = analyse_doc(&raw, &usex, &defx);
    if !an.unspecified.is_empty() {
        for u in &an.unspecified {
            run.count(&format!("unspecified/{u}"), 1);
        }
        return;
    }
    // the replay file must stay small: big documents are stored as text anyway (needed to re-run)
    let case = |extra: serde_json::Value| json!({"doc": doc, "flow": flow, "class": class, "optvec": optvec, "what": extra});
    let h = |tag: &str| fnv_parts(&[doc.as_bytes(), tag.as_bytes(), &[optvec as u8]]);

    if an.repeats == 0 {
        // identical under the three policies
        for tn in TARGETS {
            run.evals(3);
            let rs: Vec<_> = (0..3).map(|p| run_target(tn, doc, p)).collect();
            let mut outs = Vec::new();
            let mut panicked = false;
            for r in rs {
                match r {
                    Err(pn) => {
                        report(run, &format!("C04:panic:{}", vcore::obs::panic_site(&pn)), case(json!({"target": tn})), pn);
                        panicked = true;
                    }
                    Ok(o) => outs.push(o),
                }
            }
            if panicked {
                continue;
            }
            let same = same_value_or_both_err(&outs[0], &outs[1]) && same_value_or_both_err(&outs[0], &outs[2]);
            if !same {
                let feat = if an.custom_tag_lookalike {
                    "keys-differing-only-in-custom-tag"
                } else if an.container_leaf_tag_lookalike {
                    "container-keys-differing-only-in-leaf-tag"
                } else {
                    "general"
                };
                report(run, 
                    &format!("C04:no-repeat:policies-differ:{feat}"),
                    case(json!({"target": tn})),
                    format!("[{tn}] Error: {} | FirstWins: {} | LastWins: {}", clip(&show(&outs[0])), clip(&show(&outs[1])), clip(&show(&outs[2]))),
                );
            } else {
                acc::count("no_repeat_held", 1);
            }
        }
        return;
    }

    let first = an.first.clone().unwrap();
    let nontrivial = an.entry_after_repeat;
    for k in &an.key_kinds {
        acc::observe(run, "repeated_key_kinds", k);
    }
    for k in &an.discarded_values {
        acc::observe(run, "discarded_value_classes", k);
    }
    if first.via_alias {
        acc::count("docs_first_repeat_written_as_alias", 1);
    }

    // ---- Error policy
    if first.in_replay {
        acc::count("unspecified/first-repeat-inside-replayed-anchor", 1);
    } else {
        let expect = (first.expect.line as u64, first.expect.col as u64 + 1);
        for tn in TARGETS {
            let eligible = match tn {
                "Val" => true,
                "MapValVal" => an.root_is_map,
                "MapStrVal" => an.root_is_map && an.root_keys_plain_scalars,
                "Rec" | "OnlyK2" | "MapStrIgnored" | "Outer" => an.root_is_map && an.root_keys_plain_scalars,
                "json" => an.root_is_map && !an.complex_key,
                "Ignored" => true,
                "VecIgnored" => an.root_is_seq,
                _ => false,
            };
            if !eligible {
                continue;
            }
            run.eval();
            let cj = || case(json!({"policy": "Error", "target": tn}));
            match run_target(tn, doc, 0) {
                Err(pn) => report(run, &format!("C04:panic:{}", vcore::obs::panic_site(&pn)), cj(), pn),
                Ok(Ok(v)) => report(run, 
                    &if first.in_nullmap_value { NULLMAP_SIG.to_string() } else { format!("C04:error-policy:repeated-key-accepted:{}", first.key_kind) },
                    cj(),
                    format!("[{tn}] repeated {} key at line {} col {} gave Ok({})", first.key_kind, expect.0, expect.1, clip(&v)),
                ),
                Ok(Err(e)) => {
                    let kind = vcore::errs::kind(&e);
                    acc::observe(run, "error_policy_kinds", &kind);
                    if first.in_nullmap_value && kind == "AliasError" && e.to_string().contains("duplicate mapping key") {
                        report(run, NULLMAP_LOC_SIG, cj(), format!("[{tn}] expected DuplicateMappingKey at {expect:?}, got {kind}: {}", clip(&e.to_string())));
                        continue;
                    }
                    if kind != "DuplicateMappingKey" {
                        // an error of the target itself that precedes the repeated key (e.g. a tagged scalar the
                        // target cannot take in key position) is not the policy's business: the document must be
                        // readable by this target when nothing is rejected as a duplicate
                        run.eval();
                        if !matches!(run_target(tn, doc, 2), Ok(Ok(_))) && !matches!(run_target(tn, doc, 1), Ok(Ok(_))) {
                            acc::count("error_policy_skipped_target_rejects_document", 1);
                            continue;
                        }
                        report(run, 
                            &format!("C04:error-policy:wrong-error:{kind}"),
                            cj(),
                            format!("[{tn}] expected DuplicateMappingKey at {expect:?}, got {kind}: {}", clip(&e.to_string())),
                        );
                        continue;
                    }
                    let got = vcore::errs::line_col(&e);
                    if got == Some(expect) {
                        acc::count("error_policy_located_held", 1);
                        if IGNORING.contains(&tn) && first.depth > 0 {
                            acc::count("error_policy_located_held_below_root_in_ignoring_target", 1);
                        }
                        if nontrivial {
                            run.nontrivial(h(&format!("E/{tn}")));
                        }
                    } else {
                        let def = (first.def.line as u64, first.def.col as u64 + 1);
                        let fo = (first.first_occurrence.line as u64, first.first_occurrence.col as u64 + 1);
                        let sig = if first.in_nullmap_value {
                            NULLMAP_LOC_SIG.to_string()
                        } else if first.via_alias && got == Some(def) {
                            "C04:error-location:alias-key-reported-at-anchor-definition".to_string()
                        } else if got == Some(fo) {
                            format!("C04:error-location:reported-at-first-occurrence:{}", first.key_kind)
                        } else if got.is_none() {
                            "C04:error-location:missing".to_string()
                        } else {
                            format!("C04:error-location:elsewhere:{}", first.key_kind)
                        };
                        report(run, 
                            &sig,
                            cj(),
                            format!(
                                "[{tn}] DuplicateMappingKey reported at {got:?}; the repeated key (second occurrence) starts at {expect:?}; first occurrence at {fo:?}; key written as alias: {}",
                                first.via_alias
                            ),
                        );
                    }
                }
            }
        }
    }

    // ---- First/LastWins into targets that ignore: nothing is rejected, so they must succeed
    for tn in ["Ignored", "MapStrIgnored", "VecIgnored"] {
        let eligible = match tn {
            "Ignored" => true,
            "MapStrIgnored" => an.root_is_map && an.root_keys_plain_scalars,
            _ => an.root_is_seq,
        };
        if !eligible {
            continue;
        }
        for p in [1usize, 2] {
            run.eval();
            let cj = || case(json!({"policy": if p == 1 { "FirstWins" } else { "LastWins" }, "target": tn}));
            match run_target(tn, doc, p) {
                Err(pn) => report(run, &format!("C04:panic:{}", vcore::obs::panic_site(&pn)), cj(), pn),
                Ok(Ok(_)) => acc::count("ignoring_target_read_through_held", 1),
                Ok(Err(e)) => {
                    // only a verdict when the untyped target reads the document under this policy
                    run.eval();
                    let reference = if tn == "MapStrIgnored" { "MapStrVal" } else { "Val" };
                    if matches!(run_target(reference, doc, p), Ok(Ok(_))) {
                        report(
                            run,
                            &format!("C04:{}:ignoring-target-failed:{}", if p == 1 { "first-wins" } else { "last-wins" }, vcore::errs::kind(&e)),
                            cj(),
                            format!("[{tn}] {}", clip(&e.to_string())),
                        );
                    }
                }
            }
        }
    }

    // ---- FirstWins: equals the document with every later entry deleted
    let d_first = dedup(&usex, true);
    if let Some((fdoc, fraw)) = render_ref(run, &d_first, flow, "first-wins reference") {
        if analyse_doc(&fraw, &fraw, &fraw).repeats != 0 || fraw.has_alias() {
            run.inconclusive("model error: first-wins reference still has repeats");
        } else {
            for tn in TARGETS {
                if ["Ignored", "MapStrIgnored", "VecIgnored"].contains(&tn) {
                    continue; // read-through is checked above; their Ok value carries nothing to compare
                }
                run.evals(2);
                let cj = || case(json!({"policy": "FirstWins", "target": tn, "reference": clip(&fdoc)}));
                let (a, b) = match (run_target(tn, doc, 1), run_target(tn, &fdoc, 0)) {
                    (Err(pn), _) | (_, Err(pn)) => {
                        report(run, &format!("C04:panic:{}", vcore::obs::panic_site(&pn)), cj(), pn);
                        continue;
                    }
                    (Ok(a), Ok(b)) => (a, b),
                };
                if !same_value_or_both_err(&a, &b) {
                    report(run, 
                        &format!("C04:first-wins:{}:discarded-{}", cls(&a, &b), first.discarded_value),
                        cj(),
                        format!("[{tn}] FirstWins: {} | later entries deleted: {}", clip(&show(&a)), clip(&show(&b))),
                    );
                } else {
                    acc::count(if a.is_ok() { "first_wins_both_ok" } else { "first_wins_both_err" }, 1);
                    if nontrivial {
                        run.nontrivial(h(&format!("F/{tn}")));
                    }
                }
            }
        }
    }

    // ---- LastWins into overwriting maps: equals the document with every earlier entry deleted
    let overwrite_ok = !an.repeat_differs_in_resolution;
    if !overwrite_ok {
        acc::count("unspecified/overwriting-target-resolves-repeated-key-differently", 1);
    }
    // (a) overwriting at every level (OVal): every mapping of the reference is de-duplicated
    let d_last = dedup(&usex, false);
    if !overwrite_ok {
    } else if let Some((ldoc, lraw)) = render_ref(run, &d_last, flow, "last-wins reference") {
        if analyse_doc(&lraw, &lraw, &lraw).repeats != 0 {
            run.inconclusive("model error: last-wins reference still has repeats");
        } else {
            run.evals(2);
            let cj = || case(json!({"policy": "LastWins", "target": "OVal", "reference": clip(&ldoc)}));
            match (run_oval(doc, 2), run_oval(&ldoc, 0)) {
                (Err(pn), _) | (_, Err(pn)) => report(run, &format!("C04:panic:{}", vcore::obs::panic_site(&pn)), cj(), pn),
                (Ok(a), Ok(b)) => {
                    if !same_value_or_both_err(&a, &b) {
                        report(
                            run,
                            &format!("C04:last-wins-overwrite:{}:{}", cls(&a, &b), first.key_kind),
                            cj(),
                            format!("[OVal] LastWins: {} | earlier entries deleted: {}", clip(&show(&a)), clip(&show(&b))),
                        );
                    } else {
                        acc::count(if a.is_ok() { "last_wins_overwrite_both_ok" } else { "last_wins_overwrite_both_err" }, 1);
                        if nontrivial {
                            run.nontrivial(h("L/OVal"));
                        }
                    }
                }
            }
        }
    }
    // (b) BTreeMap<_, Val>: only the root mapping overwrites, the values below are ordered pair lists
    if overwrite_ok && an.root_is_map && matches!(&usex, RNode::Map { entries, .. } if map_has_repeat(entries)) {
        let d_last_root = dedup_last_root(&usex);
        if let Some((ldoc, _)) = render_ref(run, &d_last_root, flow, "last-wins root reference") {
            for tn in ["MapValVal", "MapStrVal"] {
                run.evals(2);
                let cj = || case(json!({"policy": "LastWins", "target": tn, "reference": clip(&ldoc)}));
                let (a, b) = match (run_target(tn, doc, 2), run_target(tn, &ldoc, 2)) {
                    (Err(pn), _) | (_, Err(pn)) => {
                        report(run, &format!("C04:panic:{}", vcore::obs::panic_site(&pn)), cj(), pn);
                        continue;
                    }
                    (Ok(a), Ok(b)) => (a, b),
                };
                if !same_value_or_both_err(&a, &b) {
                    report(
                        run,
                        &format!("C04:last-wins-overwrite:{}:{}", cls(&a, &b), first.key_kind),
                        cj(),
                        format!("[{tn}] LastWins: {} | earlier root entries deleted: {}", clip(&show(&a)), clip(&show(&b))),
                    );
                } else {
                    acc::count(if a.is_ok() { "last_wins_overwrite_both_ok" } else { "last_wins_overwrite_both_err" }, 1);
                    if nontrivial {
                        run.nontrivial(h(&format!("L/{tn}")));
                    }
                }
            }
        }
    }
    // struct targets under LastWins see a repeated field: what derive(Deserialize) makes of it is not the library's
    acc::count("unspecified/last-wins-into-struct", 1);

    // ---- LastWins into the ordered pair list: every entry, in order
    let mut split = HashSet::new();
    let s_tree = split_maps(&usex, &mut Vec::new(), &mut split);
    if split.is_empty() {
        acc::count("last_wins_delivery_skipped_repeats_only_next_to_merges", 1);
    } else if let Some((sdoc, _)) = render_ref(run, &s_tree, flow, "one-pair-mappings reference") {
        run.evals(2);
        let cj = || case(json!({"policy": "LastWins", "target": "Val", "reference": clip(&sdoc)}));
        match (run_val(doc, 2), run_val(&sdoc, 2)) {
            (Err(pn), _) | (_, Err(pn)) => report(run, &format!("C04:panic:{}", vcore::obs::panic_site(&pn)), cj(), pn),
            (Ok(Ok(a)), Ok(Ok(b))) => match unsplit(&b, &mut Vec::new(), &split) {
                None if an.has_nullmap_key => acc::count("last_wins_delivery_skipped_value_of_nullmap_keyed_entry_not_delivered", 1),
                None => run.inconclusive("model error: one-pair-mappings reference did not deserialize into one-pair maps"),
                Some(b2) => {
                    if a != b2 {
                        let ca = a.node_count();
                        let cb = b2.node_count();
                        let what = if ca < cb { "entries-missing" } else if ca > cb { "entries-extra" } else { "value-or-order" };
                        report(run, 
                            &format!("C04:last-wins-delivery:{what}:{}", first.key_kind),
                            cj(),
                            format!("LastWins into ordered pairs: {} | entries one by one: {}", clip(&a.to_string()), clip(&b2.to_string())),
                        );
                    } else {
                        acc::count("last_wins_delivery_held", 1);
                        if nontrivial {
                            run.nontrivial(h("L/Val"));
                        }
                    }
                }
            },
            (Ok(a), Ok(b)) => {
                if a.is_ok() != b.is_ok() {
                    report(run, 
                        &format!("C04:last-wins-delivery:{}:{}", if a.is_ok() { "ok-vs-err" } else { "err-vs-ok" }, first.key_kind),
                        cj(),
                        format!(
                            "LastWins into ordered pairs: {:?} | entries one by one: {:?}",
                            a.as_ref().map(|_| "Ok").map_err(|e| vcore::errs::kind(e)),
                            b.as_ref().map(|_| "Ok").map_err(|e| vcore::errs::kind(e))
                        ),
                    );
                } else {
                    acc::count("last_wins_delivery_both_err", 1);
                }
            }
        }
    }
}

// ------------------------------------------------------------------ generator

#[derive(Clone, Copy, Debug, PartialEq, Eq)]
enum KKind {
    Scalar,
    Seq,
    Map,
    /// `~` (a null key)
    Null,
    /// `""` (an empty string key)
    Empty,
    /// `[]`
    ESeq,
    /// `{}`
    EMap,
    /// `{~: m}`: a one-entry mapping with a null key (the deserializer has a dedicated buffered path for it)
    NullMap,
}

/// How a later occurrence of a key is written.
#[derive(Clone, Copy, Debug, PartialEq, Eq)]
enum Variant {
    Same,
    Restyle,
    Alias,
    /// looks like the first occurrence but carries `!!str` on the scalar / the first element /
    /// the entry key: a *different* key (random part only)
    TagElem,
    /// alias to an equal node that is anchored in an entry *before* the mapping, not at the first occurrence
    AliasPre,
}

#[derive(Clone, Debug, PartialEq)]
enum VShape {
    Tok,
    ESeq,
    EMap,
    Nest,
    AliasMed,
    DupMerge,
    Deep(usize, bool),
    BigSeq(usize),
    BigMap(usize),
    AliasBig,
    BigDupMerge(usize),
    Tree(Node),
}

const SMALL_SHAPES: [VShape; 6] = [VShape::Tok, VShape::ESeq, VShape::EMap, VShape::Nest, VShape::AliasMed, VShape::DupMerge];

struct Spec {
    /// key id per entry
    ids: Vec<usize>,
    kinds: Vec<KKind>,
    /// variant per entry (ignored for first occurrences)
    variants: Vec<Variant>,
    values: Vec<VShape>,
    /// 0 root, 1 item of a sequence followed by a tail, 2 value of a mapping followed by a tail
    wrap: usize,
    /// size of the large anchor when AliasBig is used
    big: usize,
}

struct B {
    c: usize,
}

impl B {
    fn tok(&mut self) -> Node {
        let n = Node::plain(&format!("t{}", self.c));
        self.c += 1;
        n
    }
    fn key(&self, id: usize, kind: KKind, later: Option<Variant>, anchor: Option<String>) -> Node {
        let name = format!("k{}", id + 1);
        if later == Some(Variant::Alias) {
            return Node::alias(&format!("a{id}"));
        }
        if later == Some(Variant::AliasPre) {
            return Node::alias(&format!("p{id}"));
        }
        if later == Some(Variant::TagElem) {
            let t = Node::plain(&name).with_tag("!!str");
            return match kind {
                KKind::Seq => Node::fseq(vec![t, Node::plain("s")]),
                KKind::Map => Node::fmap(vec![(t, Node::plain("m"))]),
                _ => t,
            };
        }
        let restyle = later == Some(Variant::Restyle);
        let n = match kind {
            KKind::Scalar => {
                if restyle {
                    if id % 2 == 0 { Node::dq(&name) } else { Node::sq(&name) }
                } else {
                    Node::plain(&name)
                }
            }
            KKind::Seq => {
                let a = if restyle { Node::dq(&name) } else { Node::plain(&name) };
                Node::fseq(vec![a, Node::plain("s")])
            }
            KKind::Map => {
                let (a, b) = if restyle { (Node::dq(&name), Node::sq("m")) } else { (Node::plain(&name), Node::plain("m")) };
                Node::fmap(vec![(a, b)])
            }
            KKind::Null => {
                if restyle { Node::dq("~") } else { Node::plain("~") }
            }
            KKind::Empty => {
                if restyle { Node::sq("") } else { Node::dq("") }
            }
            KKind::ESeq => Node::fseq(vec![]),
            KKind::EMap => Node::fmap(vec![]),
            KKind::NullMap => {
                let (a, b) = if restyle { (Node::dq("~"), Node::sq("m")) } else { (Node::plain("~"), Node::plain("m")) };
                Node::fmap(vec![(a, b)])
            }
        };
        match anchor {
            Some(a) => n.with_anchor(&a),
            None => n,
        }
    }
    fn deep(&mut self, n: usize) -> Node {
        let mut cur = self.tok();
        for i in 0..n {
            cur = if i % 2 == 0 { Node::seq(vec![cur]) } else { Node::map(vec![(Node::plain("d"), cur)]) };
        }
        cur
    }
    fn dup_merge(&mut self, extra: usize) -> Node {
        // own duplicates and merges of its own; the merge sources are clean
        let mut e = vec![
            (Node::plain("k1"), self.tok()),
            (Node::plain("<<"), Node::fmap(vec![(Node::plain("k2"), self.tok()), (Node::plain("k9"), self.tok())])),
            (Node::plain("k1"), Node::fseq(vec![self.tok()])),
            (Node::plain("k2"), self.tok()),
        ];
        for i in 0..extra {
            let name = format!("e{}", i % (extra / 2).max(1));
            e.push((Node::plain(&name), self.tok()));
        }
        if extra > 0 {
            e.push((Node::plain("<<"), Node::seq(vec![Node::map(vec![(Node::plain("k7"), self.tok())]), Node::map(vec![(Node::plain("k7"), self.tok()), (Node::plain("e0"), self.tok())])])));
            e.push((Node::plain("k1"), self.tok()));
        }
        Node::map(e)
    }
    fn value(&mut self, s: &VShape) -> Node {
        match s {
            VShape::Tok => self.tok(),
            VShape::ESeq => Node::seq(vec![]),
            VShape::EMap => Node::map(vec![]),
            VShape::Nest => Node::seq(vec![Node::seq(vec![self.tok()]), Node::map(vec![(Node::plain("x"), self.tok())])]),
            VShape::AliasMed => Node::alias("med"),
            VShape::DupMerge => self.dup_merge(0),
            VShape::Deep(n, _) => self.deep(*n),
            VShape::BigSeq(n) => Node::seq((0..*n).map(|_| self.tok()).collect()),
            VShape::BigMap(n) => Node::map((0..*n).map(|i| (Node::plain(&format!("f{i}")), self.tok())).collect()),
            VShape::AliasBig => Node::alias("big"),
            VShape::BigDupMerge(n) => self.dup_merge(*n),
            VShape::Tree(t) => t.clone(),
        }
    }
}

fn build(spec: &Spec) -> Node {
    let mut b = B { c: 0 };
    let n = spec.ids.len();
    // which ids are referred to by alias later?
    let mut aliased: BTreeSet<usize> = BTreeSet::new();
    let mut seen: BTreeSet<usize> = BTreeSet::new();
    for i in 0..n {
        if seen.contains(&spec.ids[i]) {
            if spec.variants[i] == Variant::Alias {
                aliased.insert(spec.ids[i]);
            }
        } else {
            seen.insert(spec.ids[i]);
        }
    }
    let mut prelude: Vec<(Node, Node)> = Vec::new();
    if spec.values.iter().any(|v| *v == VShape::AliasMed) {
        let med = Node::fseq((0..50).map(|i| Node::plain(&format!("m{i}"))).collect()).with_anchor("med");
        prelude.push((Node::plain("pre"), med));
    }
    if spec.values.iter().any(|v| *v == VShape::AliasBig) {
        let big = Node::seq((0..spec.big).map(|i| Node::plain(&format!("g{i}"))).collect()).with_anchor("big");
        prelude.push((Node::plain("prebig"), big));
    }
    {
        // anchors that `AliasPre` occurrences refer to: an equal key node, anchored before the mapping
        let mut pre_ids: BTreeSet<usize> = BTreeSet::new();
        let mut seen: BTreeSet<usize> = BTreeSet::new();
        for i in 0..n {
            if !seen.insert(spec.ids[i]) && spec.variants[i] == Variant::AliasPre {
                pre_ids.insert(spec.ids[i]);
            }
        }
        for id in pre_ids {
            let node = b.key(id, spec.kinds[id], None, Some(format!("p{id}")));
            prelude.push((Node::plain(&format!("pk{id}")), node));
        }
    }
    let mut entries: Vec<(Node, Node)> = Vec::new();
    let mut seen: BTreeSet<usize> = BTreeSet::new();
    for i in 0..n {
        let id = spec.ids[i];
        let first = seen.insert(id);
        let k = if first {
            b.key(id, spec.kinds[id], None, if aliased.contains(&id) { Some(format!("a{id}")) } else { None })
        } else {
            b.key(id, spec.kinds[id], Some(spec.variants[i]), None)
        };
        let v = b.value(&spec.values[i]);
        entries.push((k, v));
    }
    match spec.wrap {
        0 => {
            let mut e = prelude;
            e.extend(entries);
            Node::map(e)
        }
        1 => {
            let mut items = Vec::new();
            for (_, v) in prelude {
                items.push(v);
            }
            items.push(Node::map(entries));
            items.push(b.tok());
            Node::seq(items)
        }
        2 => {
            let mut e = prelude;
            e.push((Node::plain("o1"), Node::map(entries)));
            e.push((Node::plain("o2"), b.tok()));
            Node::map(e)
        }
        w => {
            // typed positions of `Outer`
            let m = Node::map(entries.clone());
            let (field, value) = match w {
                3 => ("items", Node::seq(vec![m.clone(), m])),
                4 => ("inner", m),
                5 => ("byname", Node::map(vec![(Node::plain("x"), m.clone()), (Node::plain("y"), m)])),
                6 => ("e", Node::map(vec![(Node::plain("St"), m)])),
                7 => {
                    let mut e = vec![(Node::plain("t"), Node::plain("A"))];
                    e.extend(entries);
                    ("it", Node::map(e))
                }
                8 => ("flat", m),
                _ => ("un", m),
            };
            let mut e = prelude;
            e.push((Node::plain(field), value));
            e.push((Node::plain("o2"), b.tok()));
            Node::map(e)
        }
    }
}

/// Restricted growth strings of length n with at most `max_ids` distinct ids.
fn rgs(n: usize, max_ids: usize) -> Vec<Vec<usize>> {
    fn go(n: usize, max_ids: usize, cur: &mut Vec<usize>, used: usize, out: &mut Vec<Vec<usize>>) {
        if cur.len() == n {
            out.push(cur.clone());
            return;
        }
        for id in 0..=used.min(max_ids - 1) {
            cur.push(id);
            go(n, max_ids, cur, used.max(id + 1), out);
            cur.pop();
        }
    }
    let mut out = Vec::new();
    go(n, max_ids, &mut Vec::new(), 0, &mut out);
    out
}

fn product(sizes: &[usize]) -> Vec<Vec<usize>> {
    let mut out = vec![vec![]];
    for &s in sizes {
        let mut next = Vec::with_capacity(out.len() * s);
        for pre in &out {
            for i in 0..s {
                let mut v = pre.clone();
                v.push(i);
                next.push(v);
            }
        }
        out = next;
    }
    out
}

/// All small specs for entry-id sequence `ids`. `vary_all`: every entry's value ranges over
/// the six small shapes; otherwise only entries whose key occurs more than once do.
fn small_specs(ids: &[usize], vary: u8, wraps: &[usize], kinds_all: &[KKind], vars_all: &[Variant]) -> Vec<Spec> {
    let n = ids.len();
    let n_ids = ids.iter().max().map(|m| m + 1).unwrap_or(0);
    let count = |id: usize| ids.iter().filter(|x| **x == id).count();
    let repeated: Vec<usize> = (0..n_ids).filter(|id| count(*id) >= 2).collect();
    let mut later: Vec<usize> = Vec::new(); // entry positions that are later occurrences
    let mut seen = BTreeSet::new();
    for (i, id) in ids.iter().enumerate() {
        if !seen.insert(*id) {
            later.push(i);
        }
    }
    let varied: Vec<usize> = match vary {
        2 => (0..n).collect(),
        1 => (0..n).filter(|i| repeated.contains(&ids[*i])).collect(),
        _ => later.clone(),
    };
    let mut out = Vec::new();
    let nk = kinds_all.len();
    let kind_choices = if repeated.is_empty() { product(&vec![nk; n_ids.min(2)]) } else { product(&vec![nk; repeated.len()]) };
    for kc in &kind_choices {
        let mut kinds = vec![KKind::Scalar; n_ids];
        if repeated.is_empty() {
            for (j, c) in kc.iter().enumerate() {
                kinds[j] = kinds_all[*c];
            }
        } else {
            for (j, id) in repeated.iter().enumerate() {
                kinds[*id] = kinds_all[kc[j]];
            }
        }
        for vc in product(&vec![vars_all.len(); later.len()]) {
            let mut variants = vec![Variant::Same; n];
            for (j, p) in later.iter().enumerate() {
                variants[*p] = vars_all[vc[j]];
            }
            for sc in product(&vec![SMALL_SHAPES.len(); varied.len()]) {
                let mut values = vec![VShape::Tok; n];
                for (j, p) in varied.iter().enumerate() {
                    values[*p] = SMALL_SHAPES[sc[j]].clone();
                }
                for &wrap in wraps {
                    out.push(Spec { ids: ids.to_vec(), kinds: kinds.clone(), variants: variants.clone(), values: values.clone(), wrap, big: 0 });
                }
            }
        }
    }
    out
}

fn check_spec(run: &Run, spec: &Spec, class: &str, layouts: &[bool], sample: bool, optvec: usize) {
    let n = build(spec);
    let ro = RenderOpts::new();
    for &flow in layouts {
        let mut t = n.clone();
        if flow {
            t.set_flow(true);
        }
        let Some((doc, _)) = render_checked(&t, &ro) else {
            run.inconclusive("generator-invalid: document not parsed as intended");
            continue;
        };
        acc::count(if flow { "docs_flow" } else { "docs_block" }, 1);
        run.max("max_doc_bytes", doc.len() as u64);
        if sample {
            run.sample(|| json!({"class": class, "doc": clip(&doc)}));
        }
        check_doc(run, &doc, flow, class, optvec);
    }
    acc::flush(run);
}

fn random_spec(rng: &mut Rng, depth: usize) -> Spec {
    let n = rng.range(2, 8);
    let n_ids = rng.range(1, 4);
    let ids: Vec<usize> = {
        // canonicalise to first-appearance order
        let raw: Vec<usize> = (0..n).map(|_| rng.below(n_ids)).collect();
        let mut map: Vec<Option<usize>> = vec![None; n_ids];
        let mut next = 0;
        raw.iter()
            .map(|r| {
                if map[*r].is_none() {
                    map[*r] = Some(next);
                    next += 1;
                }
                map[*r].unwrap()
            })
            .collect()
    };
    let kinds: Vec<KKind> = {
        // at most one id gets a kind of which only one key exists
        let mut special_used = false;
        (0..n_ids)
            .map(|_| {
                let k = *rng.pick(&[KKind::Scalar, KKind::Scalar, KKind::Scalar, KKind::Seq, KKind::Seq, KKind::Map, KKind::Map, KKind::Null, KKind::ESeq, KKind::NullMap]);
                if matches!(k, KKind::Null | KKind::ESeq | KKind::NullMap) {
                    if special_used {
                        return KKind::Scalar;
                    }
                    special_used = true;
                }
                k
            })
            .collect()
    };
    let variants: Vec<Variant> = (0..n).map(|_| *rng.pick(&[Variant::Same, Variant::Same, Variant::Same, Variant::Restyle, Variant::Restyle, Variant::Alias, Variant::Alias, Variant::TagElem, Variant::AliasPre])).collect();
    let mut values = Vec::new();
    for _ in 0..n {
        let v = match rng.below(20) {
            0..=6 => VShape::Tok,
            7 => VShape::ESeq,
            8 => VShape::EMap,
            9 => VShape::Nest,
            10 => VShape::AliasMed,
            11 => VShape::DupMerge,
            12 => VShape::Deep(rng.range(2, 40), false),
            13 => VShape::BigSeq(rng.range(2, 300)),
            14 => VShape::BigMap(rng.range(2, 100)),
            15 | 16 if depth > 0 => {
                // a value that is itself a mapping with repeated keys
                let mut inner = random_spec(rng, depth - 1);
                inner.wrap = 0;
                for v in inner.values.iter_mut() {
                    if matches!(v, VShape::AliasMed | VShape::AliasBig) {
                        *v = VShape::Tok;
                    }
                }
                // inner anchors would clash with the outer ones: no alias-written keys inside
                for v in inner.variants.iter_mut() {
                    if *v == Variant::Alias || *v == Variant::AliasPre {
                        *v = Variant::Restyle;
                    }
                }
                let mut t = build(&inner);
                retoken(&mut t, &format!("n{}_", rng.below(1_000_000)));
                VShape::Tree(t)
            }
            _ => {
                let mut c = 0;
                let mut t = vcore::treegen::random_tree(rng, 12, 4, vcore::treegen::LEAVES_BASIC, &mut c);
                retoken(&mut t, &format!("r{}_", rng.below(1_000_000)));
                VShape::Tree(t)
            }
        };
        values.push(v);
    }
    Spec { ids, kinds, variants, values, wrap: rng.below(3), big: 0 }
}

/// Make the tokens of an embedded sub-tree unique with respect to the rest of the document.
fn retoken(n: &mut Node, prefix: &str) {
    match n {
        Node::Scalar { text, .. } => {
            if text.starts_with('t') || text.starts_with('x') {
                *text = format!("{prefix}{text}");
            }
        }
        Node::Seq { items, .. } => items.iter_mut().for_each(|i| retoken(i, prefix)),
        Node::Map { entries, .. } => entries.iter_mut().for_each(|(_, v)| retoken(v, prefix)),
        Node::Alias(_) => {}
    }
}

// ------------------------------------------------------------------ main

fn main() {
    let run = Run::from_args("C04");
    if let Some(rep) = run.is_replay() {
        let case = &rep["case"];
        check_doc(&run, case["doc"].as_str().unwrap_or(""), case["flow"].as_bool().unwrap_or(false), "replay", case["optvec"].as_u64().unwrap_or(0) as usize);
        acc::flush(&run);
        run.finish(Finish::new("replay"));
    }
    let tier = run.tier;
    let both = [false, true];

    // ---- 1. exhaustive small shapes
    let k3 = [KKind::Scalar, KKind::Seq, KKind::Map];
    let k_special = [KKind::Null, KKind::Empty, KKind::ESeq, KKind::EMap, KKind::NullMap];
    let v3 = [Variant::Same, Variant::Restyle, Variant::Alias];
    let mut specs: Vec<Spec> = Vec::new();
    let full_n = 3;
    for n in 2..=full_n {
        for ids in rgs(n, 3) {
            specs.extend(small_specs(&ids, 2, &[0, 1, 2], &k3, &v3));
        }
    }
    // length 4: quick varies the value only at the discarded (later) entries and keeps the mapping at the
    // root; thorough varies the value of every entry whose key takes part in a repeat, in all three positions
    for ids in rgs(full_n + 1, 3) {
        specs.extend(small_specs(&ids, tier.pick(0, 1), tier.pick(&[0][..], &[0, 1, 2][..]), &k3, &v3));
    }
    let n_main = specs.len();
    let has_repeat = |ids: &[usize]| (0..ids.len()).any(|i| ids[..i].contains(&ids[i]));
    // (b) null / empty / empty-container / {~: m} keys as the repeated key (length <= 3; thorough: values varied everywhere)
    for n in 2..=3 {
        for ids in rgs(n, 3).into_iter().filter(|i| has_repeat(i)) {
            specs.extend(small_specs(&ids, tier.pick(0, 2), &[0, 1, 2], &k_special, &v3));
        }
    }
    // (c) later occurrences written as an alias to an equal node anchored *before* the mapping
    for n in 2..=3 {
        for ids in rgs(n, 3).into_iter().filter(|i| has_repeat(i)) {
            specs.extend(small_specs(&ids, tier.pick(0, 2), &[0, 1, 2], &k3, &[Variant::AliasPre]));
        }
    }
    // (d) the mapping at seven typed positions of a derived struct (sequence item, nested struct, map value,
    //     externally / internally tagged enum payload, flattened struct, untagged enum); scalar keys are the
    //     declared fields k1..k3, sequence / mapping keys are there to be rejected alike on both sides
    for n in 2..=tier.pick(3, 4) {
        for ids in rgs(n, 3) {
            specs.extend(small_specs(&ids, 0, &[3, 4, 5, 6, 7, 8, 9], &[KKind::Scalar], &v3));
        }
    }
    for ids in rgs(3, 3).into_iter().filter(|i| has_repeat(i)) {
        specs.extend(small_specs(&ids, 0, &[3, 4, 5, 6, 7, 8, 9], &[KKind::Seq, KKind::Map, KKind::Null], &[Variant::Same, Variant::Alias]));
    }
    acc::count("exhaustive_specs_special_alias_typed", (specs.len() - n_main) as u64);
    if let Ok(l) = std::env::var("C04_LIMIT") {
        let l: usize = l.parse().unwrap();
        let step = (specs.len() / l).max(1);
        let mut i = 0;
        specs.retain(|_| {
            i += 1;
            i % step == 0
        });
    }
    acc::count("exhaustive_specs", specs.len() as u64);
    par_range(specs.len(), |i| {
        check_spec(&run, &specs[i], "exhaustive", &both, i % 20011 == 0, i);
    });
    drop(specs);

    // ---- 2. look-alike keys that are *different* keys: tag differs, element differs, value differs
    {
        let mk = |k1: Node, k2: Node, wrap: usize| -> Node {
            let mut b = B { c: 0 };
            let e = vec![(k1, b.tok()), (Node::plain("k2"), b.tok()), (k2, b.tok()), (Node::plain("k3"), b.tok())];
            match wrap {
                0 => Node::map(e),
                1 => Node::seq(vec![Node::map(e), b.tok()]),
                _ => Node::map(vec![(Node::plain("o1"), Node::map(e)), (Node::plain("o2"), b.tok())]),
            }
        };
        let pairs: Vec<(Node, Node)> = vec![
            (Node::plain("k1"), Node::plain("k1").with_tag("!!str")),
            (Node::dq("k1"), Node::plain("k1").with_tag("!!str")),
            (Node::plain("k1").with_tag("!!str"), Node::plain("k1")),
            (Node::fseq(vec![Node::plain("k1"), Node::plain("s")]), Node::fseq(vec![Node::plain("k1"), Node::plain("t")])),
            (Node::fseq(vec![Node::plain("k1"), Node::plain("s")]), Node::fseq(vec![Node::plain("k1")])),
            (Node::fseq(vec![Node::plain("k1")]), Node::fseq(vec![Node::fseq(vec![Node::plain("k1")])])),
            (Node::fmap(vec![(Node::plain("k1"), Node::plain("m"))]), Node::fmap(vec![(Node::plain("k1"), Node::plain("n"))])),
            (Node::fmap(vec![(Node::plain("k1"), Node::plain("m"))]), Node::fseq(vec![Node::plain("k1"), Node::plain("m")])),
            (Node::plain("k1"), Node::fseq(vec![Node::plain("k1")])),
            (Node::plain("k1"), Node::plain("K1")),
            (Node::plain("1"), Node::plain("01")),
            (Node::plain("~"), Node::plain("null")),
            // block scalar versus quoted, same text: the same key
            (Node::dq("k1\n"), Node::styled("k1\n", vcore::ydoc::Style::Literal)),
            (Node::styled("k1 x\n", vcore::ydoc::Style::Folded), Node::dq("k1 x\n")),
            (Node::styled("k1\n", vcore::ydoc::Style::Literal), Node::dq("k1")),
            // and two that ARE the same key (control)
            (Node::plain("k1").with_tag("!!str"), Node::dq("k1").with_tag("!!str")),
            (Node::fseq(vec![Node::dq("k1"), Node::plain("s")]), Node::fseq(vec![Node::plain("k1"), Node::sq("s")])),
        ];
        let ro = RenderOpts::new();
        for (a, b) in &pairs {
            for wrap in 0..3 {
                for flow in both {
                    let mut t = mk(a.clone(), b.clone(), wrap);
                    if flow {
                        t.set_flow(true);
                    }
                    match render_checked(&t, &ro) {
                        Some((doc, _)) => {
                            acc::count("lookalike_docs", 1);
                            check_doc(&run, &doc, flow, "look-alike", wrap);
                        }
                        None => run.inconclusive("generator-invalid: look-alike document not parsed as intended"),
                    }
                }
            }
        }
        // container keys whose scalar leaves differ in tag only (different keys), in style only (same key),
        // in order, or in one element; sequence and mapping keys, nested one level, block and flow keys.
        {
            // leaf variants of the scalar `1`
            let leaf = |v: usize| -> Node {
                match v {
                    0 => Node::plain("1"),
                    1 => Node::dq("1"),
                    2 => Node::plain("1").with_tag("!!str"),
                    3 => Node::plain("1").with_tag("!!int"),
                    4 => Node::plain("1").with_tag("!foo"),
                    5 => Node::plain("1").with_tag("!bar"),
                    6 => Node::sq("1").with_tag("!!str"),
                    _ => Node::dq("1").with_tag("!foo"),
                }
            };
            const N_LEAF: usize = 8;
            let x = || Node::plain("x");
            // container forms around one varied leaf
            let form = |f: usize, l: Node| -> Node {
                match f {
                    0 => Node::seq(vec![l, x()]),
                    1 => Node::seq(vec![x(), l]),
                    2 => Node::seq(vec![l]),
                    3 => Node::map(vec![(l, x())]),
                    4 => Node::map(vec![(x(), l)]),
                    5 => Node::map(vec![(Node::plain("y"), x()), (x(), l)]),
                    6 => Node::seq(vec![Node::seq(vec![l, x()]), Node::plain("y")]),
                    7 => Node::seq(vec![Node::map(vec![(l, x())])]),
                    8 => Node::map(vec![(x(), Node::seq(vec![x(), l]))]),
                    9 => Node::map(vec![(x(), Node::map(vec![(l, x())]))]),
                    _ => Node::map(vec![(Node::seq(vec![l]), x())]),
                }
            };
            const N_FORM: usize = 11;
            let mut cases: Vec<(Node, Node)> = Vec::new();
            for f in 0..N_FORM {
                for a in 0..N_LEAF {
                    for b in 0..N_LEAF {
                        cases.push((form(f, leaf(a)), form(f, leaf(b))));
                    }
                }
            }
            // order / one element / length / nesting differences, and their must-collide controls
            let p = |t: &str| Node::plain(t);
            let extra: Vec<(Node, Node)> = vec![
                (Node::seq(vec![p("1"), p("x")]), Node::seq(vec![p("x"), p("1")])),
                (Node::seq(vec![p("1"), p("x"), p("y")]), Node::seq(vec![p("1"), p("y"), p("x")])),
                (Node::seq(vec![p("1"), p("x")]), Node::seq(vec![p("1"), p("y")])),
                (Node::seq(vec![p("1"), p("x")]), Node::seq(vec![p("1"), p("x"), p("x")])),
                (Node::seq(vec![Node::seq(vec![p("1")]), p("x")]), Node::seq(vec![p("1"), Node::seq(vec![p("x")])])),
                (Node::seq(vec![Node::seq(vec![p("1"), p("x")])]), Node::seq(vec![Node::seq(vec![p("x"), p("1")])])),
                (Node::map(vec![(p("1"), p("x"))]), Node::map(vec![(p("x"), p("1"))])),
                (Node::map(vec![(p("1"), p("x"))]), Node::map(vec![(p("1"), p("y"))])),
                (Node::map(vec![(p("1"), p("x"))]), Node::map(vec![(p("1"), p("x")), (p("2"), p("x"))])),
                (Node::map(vec![(p("1"), Node::seq(vec![p("x"), p("y")]))]), Node::map(vec![(p("1"), Node::seq(vec![p("y"), p("x")]))])),
                (Node::map(vec![(p("1"), Node::seq(vec![p("x")]))]), Node::map(vec![(p("1"), p("x"))])),
                // mapping keys equal up to entry order: counted as unspecified
                (Node::map(vec![(p("1"), p("x")), (p("2"), p("y"))]), Node::map(vec![(p("2"), p("y")), (p("1"), p("x"))])),
                // controls: the same key
                (Node::seq(vec![p("1"), p("x"), p("y")]), Node::seq(vec![Node::dq("1"), Node::sq("x"), p("y")])),
                (Node::seq(vec![Node::seq(vec![p("1"), p("x")])]), Node::seq(vec![Node::seq(vec![Node::sq("1"), Node::dq("x")])])),
                (Node::map(vec![(p("1"), p("x")), (p("2"), p("y"))]), Node::map(vec![(Node::dq("1"), p("x")), (p("2"), Node::sq("y"))])),
                (Node::map(vec![(p("1"), Node::seq(vec![p("x"), p("y")]))]), Node::map(vec![(p("1"), Node::seq(vec![Node::dq("x"), p("y")]))])),
            ];
            cases.extend(extra);
            acc::count("container_lookalike_key_pairs", cases.len() as u64);
            par_range(cases.len(), |i| {
                let (a, b) = &cases[i];
                // layouts: block document with block keys, block document with flow keys, all flow
                for layout in 0..3 {
                    for wrap in 0..3 {
                        let (mut ka, mut kb) = (a.clone(), b.clone());
                        if layout == 1 {
                            ka.set_flow(true);
                            kb.set_flow(true);
                        }
                        let mut t = mk(ka, kb, wrap);
                        if layout == 2 {
                            t.set_flow(true);
                        }
                        match render_checked(&t, &ro) {
                            Some((doc, _)) => {
                                acc::count("container_lookalike_docs", 1);
                                if (i * 9 + layout * 3 + wrap) % 1777 == 0 {
                                    run.sample(|| json!({"class": "container-look-alike", "doc": doc}));
                                }
                                check_doc(&run, &doc, layout == 2, "container-look-alike", i + layout + wrap);
                            }
                            None => run.inconclusive("generator-invalid: container look-alike document not parsed as intended"),
                        }
                    }
                }
                acc::flush(&run);
            });
        }
        // keys that differ only in a custom tag
        for doc in ["!foo k1: t0\n!bar k1: t1\nk2: t2\n", "{!foo k1: t0, k2: t1, !bar k1: t2}\n", "- !u a: t0\n  !v a: t1\n- t2\n"] {
            acc::count("custom_tag_docs", 1);
            check_doc(&run, doc, doc.starts_with('{'), "custom-tag-look-alike", 0);
        }
    }
    // ---- 3. large / deep values after (and at) the repeated key
    let debug_limited = std::env::var("C04_LIMIT").is_ok();
    if debug_limited {
        run.note("C04_LIMIT set: debugging run, exhaustive part sampled, large/random parts skipped");
    }
    if !debug_limited {
        let big_n = 10_000;
        let shapes: Vec<VShape> = vec![
            VShape::Deep(60, false),
            VShape::Deep(120, true),
            VShape::BigSeq(big_n),
            VShape::AliasBig,
            VShape::BigMap(3000),
            VShape::BigDupMerge(400),
        ];
        let patterns: Vec<Vec<usize>> = vec![vec![0, 1, 0, 2], vec![0, 0, 1], vec![0, 1, 1, 0, 2]];
        let mut bs: Vec<(Spec, bool)> = Vec::new();
        for ids in &patterns {
            let n_ids = ids.iter().max().unwrap() + 1;
            let mut seen = BTreeSet::new();
            let later: Vec<usize> = ids.iter().enumerate().filter(|(_, id)| !seen.insert(**id)).map(|(i, _)| i).collect();
            let first_of_repeated: Vec<usize> = later.iter().map(|p| ids.iter().position(|x| *x == ids[*p]).unwrap()).collect();
            for kind in [KKind::Scalar, KKind::Seq, KKind::Map] {
                for var in [Variant::Same, Variant::Restyle, Variant::Alias] {
                    for sh in &shapes {
                        for place in 0..2 {
                            // place 0: at every discarded (later) entry; place 1: at the first occurrence
                            let positions = if place == 0 { &later } else { &first_of_repeated };
                            if place == 1 && tier == Tier::Quick && !matches!(sh, VShape::BigSeq(_) | VShape::Deep(60, _)) {
                                continue;
                            }
                            for wrap in 0..3 {
                                let mut values = vec![VShape::Tok; ids.len()];
                                for p in positions {
                                    values[*p] = sh.clone();
                                }
                                let flow_only = matches!(sh, VShape::Deep(_, true));
                                let spec = Spec {
                                    ids: ids.clone(),
                                    kinds: vec![kind; n_ids],
                                    variants: vec![var; ids.len()],
                                    values,
                                    wrap,
                                    big: big_n,
                                };
                                bs.push((spec, flow_only));
                            }
                        }
                    }
                }
            }
        }
        if tier == Tier::Thorough {
            // more sizes at one pattern
            for n in [1, 2, 3, 100, 1000, 50_000] {
                for sh in [VShape::BigSeq(n), VShape::BigMap(n.min(20_000)), VShape::AliasBig, VShape::Deep(n.min(150), false)] {
                    for var in [Variant::Same, Variant::Alias] {
                        for kind in [KKind::Scalar, KKind::Map] {
                            bs.push((
                                Spec {
                                    ids: vec![0, 1, 0, 2],
                                    kinds: vec![kind; 3],
                                    variants: vec![var; 4],
                                    values: vec![VShape::Tok, VShape::Tok, sh.clone(), VShape::Tok],
                                    wrap: 2,
                                    big: n,
                                },
                                false,
                            ));
                        }
                    }
                }
            }
        }
        acc::count("large_value_specs", bs.len() as u64);
        par_range_chunk(bs.len(), 1, |i| {
            let (spec, flow_only) = &bs[i];
            // a flow rendering of a 120-deep nest stays below the scanner's flow-depth limit; block nests deeper than that go block only
            let deep_block = spec.values.iter().any(|v| matches!(v, VShape::Deep(n, false) if *n > 100));
            let layouts: &[bool] = if *flow_only { &[true] } else if deep_block { &[false] } else { &both };
            check_spec(&run, spec, "large-value", layouts, i % 97 == 0, i);
        });
    }
    // ---- 4. seeded random mappings
    let n_random = if debug_limited { 2000 } else { tier.pick(120_000, 900_000) };
    par_range(n_random, |i| {
        let mut rng = Rng::stream(run.seed, i as u64);
        let spec = random_spec(&mut rng, 2);
        let flow = rng.chance(1, 3);
        acc::count("random_docs", 1);
        check_spec(&run, &spec, "random", &[flow], i % 9973 == 0, rng.below(4));
    });
    let scope = format!(
        "(a) mappings whose entry keys follow every restricted-growth string of length 2..=3 over <= 3 key ids; every repeated id's key kind in {{scalar, sequence, mapping}}; every later occurrence written {{identically, in another style, as an alias to the first}}; every entry's value in {{token, [], {{}}, small nest, alias to a 50-element anchor, mapping with own duplicates and merges}}; test mapping at {{root, sequence item followed by a tail, mapping value followed by a tail}}; length 4 in the same way but {}. (b) the same for length 2..=3 with the repeated key in {{~, \"\", [], {{}}, {{~: m}}}}{}. (c) the same for length 2..=3 with every later occurrence written as an alias to an equal node anchored before the mapping{}. (d) every pattern of length 2..={} with scalar keys (length 3 also sequence / mapping / null keys) at seven typed positions of a derived struct (sequence item, nested struct, map value, externally and internally tagged enum payload, flattened struct, untagged enum), value varied at the discarded entries. Everything x {{block, flow}}, option vector = spec index mod 4",
        if tier == Tier::Quick { "with the value varied only at the discarded (later) entries and the mapping at the root" } else { "with the value varied at every entry whose key takes part in a repeat" },
        if tier == Tier::Quick { ", value varied at the discarded entries" } else { "" },
        if tier == Tier::Quick { ", value varied at the discarded entries" } else { "" },
        tier.pick(3, 4),
    );
    let fin = Finish::new(
        "a case (document, policy, target) is non-trivial when the raw parser's tree has a mapping with >= 1 repeated key node and >= 1 entry after it, and the policy's expectation was evaluated for that target; distinct by hash(doc, policy/target, option vector)",
    )
    .exhaustive(scope)
    .assume("raw saphyr-parser event stream is the ground truth for what a document means; repeats, expected error position and all reference documents are computed from it")
    .assume("reference documents are alias-free (aliases expanded by anchor id), so the verdict also relies on alias transparency (C02)")
    .assume(format!("option vectors crossed in (every call of one relation gets the same one): {}", OPTVEC_NAMES.join(" | ")))
    .assume("no verdict (counted as unspecified/*): LastWins into a derived struct, repeated keys inside a merge source or inside a key, tagged container keys")
    .min_nontrivial(if tier == Tier::Quick { 200_000 } else { 2_000_000 });
    acc::flush(&run);
    run.finish(fin);
}
