//! C02 — anchors and aliases are transparent.
//!
//! Metamorphic oracle on the real code: for a generated document d with
//! anchors/aliases and its alias-free expansion E(d) (computed on the generator
//! tree by the property's own rule, then confirmed against the raw parser's
//! id-based expansion), `from_str::<T>(d)` and `from_str::<T>(E(d))` must give
//! equal Ok values or both fail, for every target T of the family. Aliases with
//! no earlier (closed) anchor of that name must fail.

use serde_json::json;
use std::collections::BTreeMap;
use vcore::reftree::{self, render_checked};
use vcore::rng::{Rng, fnv_parts};
use vcore::run::{Finish, Run, Tier, par_range};
use vcore::targets::{self, same_value_or_both_err, show};
use vcore::treegen::{self, LEAVES_BASIC};
use vcore::ydoc::{self, Node, RenderOpts};

const TARGETS_QUICK: &[&str] = &["Val", "json", "MapStrVal", "VecString", "Rec"];
const TARGETS_ALL: &[&str] = &[
    "Val", "json", "VecVal", "MapStrVal", "VecString", "VecOptI64", "MapStrVecString", "Rec", "En", "OptVal", "Ignored",
    "MapValVal",
];

fn opts(variant: usize) -> serde_saphyr::Options {
    let mut o = vcore::errs::unlimited_options();
    #[allow(deprecated)]
    {
        match variant {
            1 => o.duplicate_keys = serde_saphyr::DuplicateKeyPolicy::LastWins,
            2 => o.duplicate_keys = serde_saphyr::DuplicateKeyPolicy::FirstWins,
            _ => {}
        }
    }
    o
}

struct Case {
    doc: String,
    /// None = must-fail (unresolvable alias)
    expanded: Option<String>,
}

/// Signature classifier for a value mismatch (used for known findings).
fn classify(doc: &str, exp: &str, target: &str, a: &targets::Outcome, b: &targets::Outcome) -> String {
    // anchored empty quoted scalar read as null
    let anchored_empty_quoted = {
        let d = doc.replace(' ', "");
        (d.contains("&a\"\"") || d.contains("&b\"\"") || d.contains("&a''") || d.contains("&b''"))
            && (exp.contains("\"\"") || exp.contains("''"))
    };
    let shape = match (a, b) {
        (Ok(_), Ok(_)) => "ok-vs-ok",
        (Ok(_), Err(_)) => "ok-vs-err",
        (Err(_), Ok(_)) => "err-vs-ok",
        _ => "err-vs-err",
    };
    if anchored_empty_quoted {
        return format!("C02:anchored-empty-quoted-scalar:{shape}");
    }
    format!("C02:alias-vs-expansion:{target}:{shape}")
}

fn check_case(run: &Run, c: &Case, target_names: &[&str], opt_variants: &[usize], count_nt: bool) {
    for &ov in opt_variants {
        for &tn in target_names {
            let t = targets::by_name(tn).unwrap();
            run.eval();
            let case_json = || json!({"doc": c.doc, "expanded": c.expanded, "target": tn, "opts": ov});
            match &c.expanded {
                None => {
                    let r = vcore::obs::catch(|| (t.from_str)(&c.doc, opts(ov)));
                    match r {
                        Err(p) => run.violation(&format!("C02:panic:{}", vcore::obs::panic_site(&p)), case_json(), p),
                        Ok(Ok(v)) => run.violation(
                            "C02:unresolvable-alias-accepted",
                            case_json(),
                            format!("alias without earlier closed anchor gave Ok({v})"),
                        ),
                        Ok(Err(_)) => {
                            if count_nt {
                                run.nontrivial(fnv_parts(&[c.doc.as_bytes(), tn.as_bytes(), &[ov as u8]]));
                            }
                            run.count("must_fail_cases", 1);
                        }
                    }
                }
                Some(exp) => {
                    // trace only for the untyped target (cheap, one per case/option)
                    let (ra, replayed) = if tn == "Val" {
                        let (r, tr) = vcore::hooks::traced(4096, || vcore::obs::catch(|| (t.from_str)(&c.doc, opts(ov))));
                        let sh = tr.shadow();
                        run.count("hook_replay_pumps", sh.pumps_replay);
                        run.count("hook_parser_pumps", sh.pumps_parser);
                        run.count("hook_alias_pushes", sh.alias_pushes);
                        (r, sh.pumps_replay > 0)
                    } else {
                        (vcore::obs::catch(|| (t.from_str)(&c.doc, opts(ov))), c.doc.contains('*'))
                    };
                    let rb = vcore::obs::catch(|| (t.from_str)(exp, opts(ov)));
                    let (a, b) = match (ra, rb) {
                        (Err(p), _) | (_, Err(p)) => {
                            run.violation(&format!("C02:panic:{}", vcore::obs::panic_site(&p)), case_json(), p);
                            continue;
                        }
                        (Ok(a), Ok(b)) => (a, b),
                    };
                    if !same_value_or_both_err(&a, &b) {
                        run.violation(
                            &classify(&c.doc, exp, tn, &a, &b),
                            case_json(),
                            format!("aliased: {} | expanded: {}", show(&a), show(&b)),
                        );
                    } else {
                        if replayed && count_nt {
                            run.nontrivial(fnv_parts(&[c.doc.as_bytes(), tn.as_bytes(), &[ov as u8]]));
                        }
                        if a.is_ok() {
                            run.count("both_ok", 1);
                        } else {
                            run.count("both_err", 1);
                        }
                    }
                }
            }
        }
    }
}

/// Same relation through the streaming-reader entry point (replay over the
/// `BufferedInput` parser), untyped target only.
fn check_case_reader(run: &Run, c: &Case, ov: usize) {
    let Some(exp) = &c.expanded else { return };
    let t = targets::by_name("Val").unwrap();
    run.eval();
    let ra = vcore::obs::catch(|| (t.from_reader)(&mut std::io::Cursor::new(c.doc.as_bytes()), opts(ov)));
    let rb = vcore::obs::catch(|| (t.from_reader)(&mut std::io::Cursor::new(exp.as_bytes()), opts(ov)));
    let case_json = || json!({"doc": c.doc, "expanded": c.expanded, "target": "Val", "opts": ov, "entry": "reader"});
    match (ra, rb) {
        (Err(p), _) | (_, Err(p)) => run.violation(&format!("C02:panic:{}", vcore::obs::panic_site(&p)), case_json(), p),
        (Ok(a), Ok(b)) => {
            if !same_value_or_both_err(&a, &b) {
                run.violation(
                    &format!("C02:reader:{}", classify(&c.doc, exp, "Val", &a, &b)),
                    case_json(),
                    format!("aliased: {} | expanded: {}", show(&a), show(&b)),
                );
            } else {
                run.count("reader_cases", 1);
            }
        }
    }
}

/// Build the case for a decorated tree in one layout; None = generator-invalid.
fn build_case(run: &Run, tree: &Node, flow: bool, ro: &RenderOpts) -> Option<Case> {
    let mut t = tree.clone();
    t.set_flow(flow);
    match ydoc::expand(&t) {
        Some(e) => {
            let Some((doc, rdoc)) = render_checked(&t, ro) else {
                if std::env::var_os("VERIF_DEBUG").is_some() {
                    let txt = ydoc::render(&t, ro).text;
                    eprintln!("GENERATOR-INVALID:\n{txt}--- intended {}\n--- parsed   {:?}", reftree::node_shape(&t), reftree::parse_one(&txt).map(|r| reftree::rnode_shape_anon(&r)));
                }
                run.inconclusive("generator-invalid: aliased document not parsed as intended");
                return None;
            };
            let Some((exp, rexp)) = render_checked(&e, ro) else {
                run.inconclusive("generator-invalid: expanded document not parsed as intended");
                return None;
            };
            if rexp.has_alias() || rexp.has_anchor() {
                run.inconclusive("generator-invalid: expansion still has anchors/aliases");
                return None;
            }
            // id-based expansion of what the parser saw must equal the name-based one
            match rdoc.expand() {
                Some(x) if x.shape() == rexp.shape() => {}
                _ => {
                    run.inconclusive("model disagreement: id-based vs name-based expansion");
                    return None;
                }
            }
            Some(Case { doc, expanded: Some(exp) })
        }
        None => {
            // must-fail: confirm the document is otherwise fine by replacing aliases with scalars
            let doc = ydoc::render(&t, ro).text;
            let mut repl = t.clone();
            replace_aliases(&mut repl);
            if render_checked(&repl, ro).is_none() {
                run.inconclusive("generator-invalid: must-fail skeleton not parsed as intended");
                return None;
            }
            Some(Case { doc, expanded: None })
        }
    }
}

fn replace_aliases(n: &mut Node) {
    match n {
        Node::Alias(_) => *n = Node::plain("zz"),
        Node::Seq { items, .. } => items.iter_mut().for_each(replace_aliases),
        Node::Map { entries, .. } => entries.iter_mut().for_each(|(k, v)| {
            replace_aliases(k);
            replace_aliases(v);
        }),
        _ => {}
    }
}

/// All decorations of a base tree with <= 2 anchors and <= 2 aliases (at least one of either).
fn decorations(base: &Node, with_merge: bool, deep: bool) -> Vec<Node> {
    let paths = treegen::node_paths(base);
    let leaf_paths: Vec<&Vec<usize>> = paths
        .iter()
        .filter(|p| match treegen::node_at(base, p) {
            Node::Scalar { .. } => true,
            Node::Seq { items, .. } => items.is_empty(),
            Node::Map { entries, .. } => entries.is_empty(),
            Node::Alias(_) => false,
        })
        .collect();
    // anchor choices: list of (path, name)
    let mut anchor_sets: Vec<Vec<(&Vec<usize>, &str)>> = vec![vec![]];
    for p in &paths {
        anchor_sets.push(vec![(p, "a")]);
    }
    for i in 0..paths.len() {
        for j in (i + 1)..paths.len() {
            anchor_sets.push(vec![(&paths[i], "a"), (&paths[j], "a")]);
            anchor_sets.push(vec![(&paths[i], "a"), (&paths[j], "b")]);
        }
    }
    if deep {
        // three anchors: names (a,a,a), (a,a,b), (a,b,a), (a,b,b), (a,b,c)
        for i in 0..paths.len() {
            for j in (i + 1)..paths.len() {
                for k in (j + 1)..paths.len() {
                    for (x, y, z) in [("a", "a", "a"), ("a", "a", "b"), ("a", "b", "a"), ("a", "b", "b"), ("a", "b", "c")] {
                        anchor_sets.push(vec![(&paths[i], x), (&paths[j], y), (&paths[k], z)]);
                    }
                }
            }
        }
    }
    let mut alias_sets: Vec<Vec<(&Vec<usize>, &str)>> = vec![vec![]];
    for p in &leaf_paths {
        alias_sets.push(vec![(p, "a")]);
        alias_sets.push(vec![(p, "b")]);
    }
    for i in 0..leaf_paths.len() {
        for j in (i + 1)..leaf_paths.len() {
            for (x, y) in [("a", "a"), ("a", "b"), ("b", "a"), ("b", "b")] {
                alias_sets.push(vec![(leaf_paths[i], x), (leaf_paths[j], y)]);
            }
        }
    }
    if deep {
        for i in 0..leaf_paths.len() {
            for j in (i + 1)..leaf_paths.len() {
                for k in (j + 1)..leaf_paths.len() {
                    for x in ["a", "b", "c"] {
                        for y in ["a", "b", "c"] {
                            for z in ["a", "b"] {
                                alias_sets.push(vec![(leaf_paths[i], x), (leaf_paths[j], y), (leaf_paths[k], z)]);
                            }
                        }
                    }
                }
            }
        }
    }
    let mut out = Vec::new();
    for an in &anchor_sets {
        for al in &alias_sets {
            if deep && an.len() < 3 && al.len() < 3 {
                continue; // covered by the ordinary enumeration
            }
            if an.is_empty() && al.is_empty() {
                continue;
            }
            if an.iter().any(|(p, _)| al.iter().any(|(q, _)| p == q)) {
                continue;
            }
            let mut t = base.clone();
            for (p, name) in an {
                let n = treegen::node_at_mut(&mut t, p);
                *n = n.clone().with_anchor(name);
            }
            for (p, name) in al {
                *treegen::node_at_mut(&mut t, p) = Node::alias(name);
            }
            out.push(t.clone());
            if with_merge {
                // turn one aliased map value's key into a merge key
                for (p, _) in al {
                    if let Some((&last, parent)) = p.split_last()
                        && last % 2 == 1
                        && matches!(treegen::node_at(&t, parent), Node::Map { .. })
                    {
                        let mut t2 = t.clone();
                        let mut kp = parent.to_vec();
                        kp.push(last - 1);
                        let key = treegen::node_at_mut(&mut t2, &kp);
                        if key.anchor().is_none() && !matches!(key, Node::Alias(_)) {
                            *key = Node::plain("<<");
                            out.push(t2);
                        }
                    }
                }
            }
        }
    }
    out
}

fn random_decorated(rng: &mut Rng) -> Node {
    let mut counter = 0;
    let budget = rng.range(4, 40);
    let mut t = treegen::random_tree(rng, budget, 5, LEAVES_BASIC, &mut counter);
    let paths = treegen::node_paths(&t);
    let names = ["a", "b", "c", "d"];
    let n_anchor = rng.range(1, 6.min(paths.len()));
    for _ in 0..n_anchor {
        let p = rng.pick(&paths).clone();
        let name = *rng.pick(&names);
        let n = treegen::node_at_mut(&mut t, &p);
        if !matches!(n, Node::Alias(_)) {
            *n = n.clone().with_anchor(name);
        }
    }
    // tags on some nodes (an alias must carry the tag of its anchor)
    let n_tags = rng.below(3);
    for _ in 0..n_tags {
        let p = rng.pick(&paths).clone();
        let n = treegen::node_at_mut(&mut t, &p);
        let tag = match n {
            Node::Scalar { .. } => *rng.pick(&["!!str", "!!int", "!custom", "!", "!!null", "!!binary"]),
            Node::Seq { .. } => *rng.pick(&["!!seq", "!custom"]),
            Node::Map { .. } => *rng.pick(&["!!map", "!custom"]),
            Node::Alias(_) => continue,
        };
        *n = n.clone().with_tag(tag);
    }
    let n_alias = rng.range(1, 6);
    for _ in 0..n_alias {
        let paths = treegen::node_paths(&t);
        let p = rng.pick(&paths).clone();
        if p.is_empty() {
            continue;
        }
        let name = *rng.pick(&names);
        // replace a whole subtree by an alias (may remove anchors: fine)
        *treegen::node_at_mut(&mut t, &p) = Node::alias(name);
        // sometimes make it a merge
        if let Some((&last, parent)) = p.split_last()
            && last % 2 == 1
            && rng.chance(1, 4)
        {
            let mut kp = parent.to_vec();
            kp.push(last - 1);
            *treegen::node_at_mut(&mut t, &kp) = Node::plain("<<");
        }
    }
    t
}

fn main() {
    let run = Run::from_args("C02");
    if let Some(rep) = run.is_replay() {
        let case = &rep["case"];
        let c = Case {
            doc: case["doc"].as_str().unwrap_or("").to_string(),
            expanded: case["expanded"].as_str().map(|s| s.to_string()),
        };
        if let Some(stream) = case["stream"].as_str() {
            let t = targets::by_name("Val").unwrap();
            let docs = case["docs"].as_array().cloned().unwrap_or_default();
            let bad = docs.iter().any(|d| d["expanded"].is_null());
            run.eval();
            let got = (t.from_multiple)(stream, opts(0));
            if bad && got.is_ok() {
                run.violation("C02:stream:alias-to-anchor-of-earlier-document-accepted", case.clone(), format!("from_multiple returned {}", show(&got)));
            }
            if !bad {
                let exp: String = docs.iter().map(|d| format!("---\n{}", d["expanded"].as_str().unwrap_or(""))).collect();
                let e = (t.from_multiple)(&exp, opts(0));
                if !same_value_or_both_err(&got, &e) {
                    run.violation("C02:stream:documents-differ-from-expansion", case.clone(), format!("{} | {}", show(&got), show(&e)));
                }
            }
            run.nontrivial(1);
            run.nontrivial(2);
            run.finish(Finish::new("replay"));
        }
        let tn = case["target"].as_str().unwrap_or("Val").to_string();
        let ov = case["opts"].as_u64().unwrap_or(0) as usize;
        let tn_static: &'static str = targets::by_name(&tn).map(|t| t.name).unwrap_or("Val");
        if case["entry"].as_str() == Some("reader") {
            check_case_reader(&run, &c, ov);
        } else {
            check_case(&run, &c, &[tn_static], &[ov], true);
        }
        run.finish(Finish::new("replay"));
    }

    let tier = run.tier;
    let max_nodes = 5;
    // thorough also enumerates (a) every placement of 3 anchors / 3 aliases on trees of <= 4 nodes and
    // (b) trees of 6 nodes over a reduced leaf alphabet
    let deep_nodes = tier.pick(0, 4);
    let six = tier == Tier::Thorough;
    let target_names: &[&str] = tier.pick(TARGETS_QUICK, TARGETS_ALL);
    let ro = RenderOpts::new();

    // ---- exhaustive part
    let mut bases = Vec::new();
    for n in 1..=max_nodes {
        bases.extend(treegen::base_trees(n, LEAVES_BASIC));
    }
    run.count("base_trees", bases.len() as u64);
    let decorated_total = std::sync::atomic::AtomicU64::new(0);
    par_range(bases.len(), |i| {
        let decs = decorations(&bases[i], true, false);
        decorated_total.fetch_add(decs.len() as u64, std::sync::atomic::Ordering::Relaxed);
        let mut local: BTreeMap<&'static str, u64> = BTreeMap::new();
        for (j, d) in decs.iter().enumerate() {
            for flow in [false, true] {
                if let Some(c) = build_case(&run, d, flow, &ro) {
                    *local.entry(if flow { "cases_flow" } else { "cases_block" }).or_insert(0) += 1;
                    let ovs: &[usize] = if j % 7 == 0 { &[0, 1, 2] } else { &[0] };
                    check_case(&run, &c, target_names, ovs, true);
                    if (i * 31 + j) % 9973 == 0 {
                        run.sample(|| json!({"doc": c.doc, "expanded": c.expanded}));
                    }
                }
            }
        }
        run.count_map(&local);
    });
    run.count("decorated_trees", decorated_total.load(std::sync::atomic::Ordering::Relaxed));

    // ---- thorough: three anchors / three aliases on small trees
    if deep_nodes > 0 {
        let mut small = Vec::new();
        for n in 1..=deep_nodes {
            small.extend(treegen::base_trees(n, LEAVES_BASIC));
        }
        let deep_total = std::sync::atomic::AtomicU64::new(0);
        par_range(small.len(), |i| {
            let decs = decorations(&small[i], false, true);
            deep_total.fetch_add(decs.len() as u64, std::sync::atomic::Ordering::Relaxed);
            for d in decs.iter() {
                for flow in [false, true] {
                    if let Some(c) = build_case(&run, d, flow, &ro) {
                        check_case(&run, &c, TARGETS_QUICK, &[0], true);
                    }
                }
            }
        });
        run.count("deep_decorated_trees(3 anchors or 3 aliases)", deep_total.load(std::sync::atomic::Ordering::Relaxed));
    }
    // ---- thorough: six-node trees over two leaves (plain unique scalar, empty quoted scalar)
    if six {
        let leaves2 = &LEAVES_BASIC[..3];
        let six_trees = treegen::base_trees(6, leaves2);
        run.count("base_trees_6_nodes", six_trees.len() as u64);
        let six_total = std::sync::atomic::AtomicU64::new(0);
        par_range(six_trees.len(), |i| {
            let decs = decorations(&six_trees[i], true, false);
            six_total.fetch_add(decs.len() as u64, std::sync::atomic::Ordering::Relaxed);
            for (j, d) in decs.iter().enumerate() {
                let flow = (i + j) % 2 == 1;
                if let Some(c) = build_case(&run, d, flow, &ro) {
                    check_case(&run, &c, &["Val", "MapStrVal"], &[0], true);
                }
            }
        });
        run.count("decorated_trees_6_nodes", six_total.load(std::sync::atomic::Ordering::Relaxed));
    }

    // ---- anchor-only relation on richer scalars: attaching an anchor never changes the value
    let scalars: Vec<Node> = {
        use ydoc::Style::*;
        let texts = ["", "x", "1", "~", "null", "true", "1.5", " ", "a b", "<<", "-", "0x10", "y"];
        let mut v = Vec::new();
        for t in texts {
            for st in [Plain, Single, Double] {
                if st == Plain && !ydoc::plain_safe(t) {
                    continue;
                }
                v.push(Node::styled(t, st));
            }
        }
        v.push(Node::styled("l1\nl2\n", Literal));
        v.push(Node::styled("f1\nf2\n", Folded));
        v.push(Node::styled("", Literal));
        v
    };
    for s in &scalars {
        for ctx in 0..5 {
            let anchored = s.clone().with_anchor("a");
            let wrap = |n: Node| match ctx {
                0 => n,
                1 => Node::seq(vec![n]),
                2 => Node::map(vec![(Node::plain("k1"), n)]),
                3 => Node::fseq(vec![Node::plain("z"), n]),
                _ => Node::fmap(vec![(Node::plain("k1"), n)]),
            };
            let (a, b) = (wrap(anchored), wrap(s.clone()));
            let (Some((da, _)), Some((db, _))) = (render_checked(&a, &ro), render_checked(&b, &ro)) else {
                run.inconclusive("generator-invalid: anchor-only scalar case");
                continue;
            };
            let c = Case { doc: da, expanded: Some(db) };
            // anchor-only cases have no replay; count them as non-trivial by their own rule
            check_case(&run, &c, TARGETS_ALL, &[0], false);
            run.nontrivial(fnv_parts(&[c.doc.as_bytes(), b"anchor-only"]));
            run.count("anchor_only_cases", 1);
        }
    }

    // ---- random larger documents
    let n_random = tier.pick(1_000_000, 8_000_000);
    par_range(n_random, |i| {
        let mut rng = Rng::stream(run.seed, i as u64);
        let t = random_decorated(&mut rng);
        let flow = rng.chance(1, 3);
        let ro = RenderOpts { indent: *rng.pick(&[1usize, 2, 4]), brk: "\n", compact: rng.bool() };
        if let Some(c) = build_case(&run, &t, flow, &ro) {
            run.count("random_cases", 1);
            check_case(&run, &c, target_names, &[rng.below(3)], true);
            if i % 4 == 0 {
                check_case_reader(&run, &c, rng.below(3));
            }
            if i % 4999 == 0 {
                run.sample(|| json!({"doc": c.doc, "expanded": c.expanded}));
            }
        }
    });

    // ---- streams: anchors are per document. An alias whose name is defined only in an EARLIER
    // document of the stream has "no earlier anchor of that name in the same document" and must
    // fail in its document; documents that resolve on their own must equal their expansion.
    let n_streams = tier.pick(40_000, 400_000);
    par_range(n_streams, |i| {
        let mut rng = Rng::stream(run.seed ^ 0x5712_ea35, i as u64);
        let k = rng.range(2, 5);
        let ro = RenderOpts::new();
        let mut docs: Vec<Case> = Vec::new();
        for _ in 0..k {
            // small documents so that names collide across documents (a..d pool)
            let t = if rng.chance(1, 3) {
                // a document that only defines anchors / a document that only uses aliases
                if rng.bool() {
                    Node::map(vec![(Node::plain("k1"), Node::plain("v").with_anchor(*rng.pick(&["a", "b", "c", "d"])))])
                } else {
                    Node::map(vec![(Node::plain("k1"), Node::alias(*rng.pick(&["a", "b", "c", "d"])))])
                }
            } else {
                random_decorated(&mut rng)
            };
            match build_case(&run, &t, false, &ro) {
                Some(c) => docs.push(c),
                None => return,
            }
        }
        let stream: String = docs.iter().map(|c| format!("---\n{}", c.doc)).collect();
        let first_bad = docs.iter().position(|c| c.expanded.is_none());
        let expanded_prefix: String = docs
            .iter()
            .take(first_bad.unwrap_or(docs.len()))
            .map(|c| format!("---\n{}", c.expanded.as_ref().unwrap()))
            .collect();
        let t = targets::by_name("Val").unwrap();
        let case_json = || json!({"stream": stream, "docs": docs.iter().map(|c| json!({"doc": c.doc, "expanded": c.expanded})).collect::<Vec<_>>()});
        run.eval();
        // batch
        let got = vcore::obs::catch(|| (t.from_multiple)(&stream, opts(0)));
        let exp = vcore::obs::catch(|| (t.from_multiple)(&expanded_prefix, opts(0)));
        let (got, exp) = match (got, exp) {
            (Err(p), _) | (_, Err(p)) => {
                run.violation(&format!("C02:panic:{}", vcore::obs::panic_site(&p)), case_json(), p);
                return;
            }
            (Ok(g), Ok(e)) => (g, e),
        };
        match first_bad {
            Some(j) => {
                if let Ok(v) = &got {
                    run.violation(
                        "C02:stream:alias-to-anchor-of-earlier-document-accepted",
                        case_json(),
                        format!("document #{j} uses an alias whose name is not defined in that document, yet from_multiple returned Ok({v})"),
                    );
                    return;
                }
                run.count("stream_must_fail", 1);
            }
            None => {
                if !same_value_or_both_err(&got, &exp) {
                    run.violation(
                        "C02:stream:documents-differ-from-expansion",
                        case_json(),
                        format!("stream: {} | expanded stream: {}", show(&got), show(&exp)),
                    );
                    return;
                }
                run.count("stream_all_resolve", 1);
            }
        }
        // iterator: items before the first unresolvable document equal the expanded ones, and that
        // document's item is an error (what follows an error is left to C11)
        let items = vcore::obs::catch(|| (t.read_iter)(&mut std::io::Cursor::new(stream.as_bytes()), opts(0), k + 2));
        let exp_items = vcore::obs::catch(|| (t.read_iter)(&mut std::io::Cursor::new(expanded_prefix.as_bytes()), opts(0), k + 2));
        if let (Ok(items), Ok(exp_items)) = (items, exp_items) {
            let n = exp_items.len();
            let mut ok = items.len() >= n;
            if ok {
                for (a, b) in items.iter().zip(exp_items.iter()) {
                    if !same_value_or_both_err(a, b) {
                        ok = false;
                    }
                }
            }
            // null-like documents are skipped by both sides identically, so positions line up
            if !ok && exp_items.iter().all(|x| x.is_ok()) {
                run.violation(
                    "C02:stream:iterator-items-differ-from-expansion",
                    case_json(),
                    format!("iterator: {:?} | expanded: {:?}", items.iter().map(show).collect::<Vec<_>>(), exp_items.iter().map(show).collect::<Vec<_>>()),
                );
                return;
            }
            if let Some(j) = first_bad
                && exp_items.iter().all(|x| x.is_ok())
            {
                match items.get(n) {
                    Some(Ok(v)) => {
                        run.violation(
                            "C02:stream:alias-to-anchor-of-earlier-document-accepted",
                            case_json(),
                            format!("iterator yielded Ok({v}) for document #{j} whose alias has no anchor in that document"),
                        );
                        return;
                    }
                    Some(Err(_)) => run.count("stream_iter_must_fail", 1),
                    None => run.inconclusive("iterator ended before the unresolvable document (skipped null documents?)"),
                }
            }
        }
        run.nontrivial(fnv_parts(&[stream.as_bytes(), b"stream"]));
        if i % 9973 == 0 {
            run.sample(|| json!({"stream": stream}));
        }
    });

    let _ = reftree::norm_tag;
    let exhaustive_scope = format!(
        "all base trees with <= {max_nodes} nodes over 5 scalar leaves + empty seq/map, x every placement of <= 2 anchors (names a,a / a,b) x every replacement of <= 2 leaves by aliases (*a,*b) x optional merge-key variant x {{block, flow}}{}",
        if six { "; thorough adds: every placement of 3 anchors / 3 aliases on trees of <= 4 nodes; all 6-node trees over three scalar leaves (plain, plain int, empty double-quoted) + empty seq/map with <= 2 anchors / <= 2 aliases (alternating block/flow)" } else { "" }
    );
    let fin = Finish::new(
        "exhaustive small trees + seeded random trees (<=40 nodes, <=6 anchors/aliases); a case is non-trivial when the hook trace shows >=1 Replay pump (Val target; other targets: document contains an alias) or it is a must-fail alias case; distinct by hash(doc, target, option variant)",
    )
    .exhaustive(exhaustive_scope)
    .assume("raw saphyr-parser event stream is the ground truth for what a document means")
    .assume("budget and alias limits switched off (statement: whenever the expansion stays within the configured limits)")
    .min_nontrivial(if tier == Tier::Quick { 1000 } else { 10_000 });
    run.finish(fin);
}
