//! Entry points x option vectors x targets of the C01 workload.
//!
//! The owned targets come from `vcore::targets` (through its fn-pointer table);
//! the borrowed `&str` struct, the `RcAnchor` struct and the recursive types
//! used by the nesting probes are defined here.

use serde::Deserialize;
use serde::de::DeserializeOwned;
use serde_saphyr::{Budget, DuplicateKeyPolicy, Error, Options, RcAnchor};
use std::borrow::Cow;

// ------------------------------------------------------------------ entry points

#[derive(Clone, Copy, PartialEq, Eq, Debug)]
pub enum Entry {
    FromStr,
    FromSlice,
    ReaderC1,
    ReaderC7,
    FromMultiple,
    ReadIter,
    WithDeStr,
    WithDeSlice,
    WithDeReader,
}

impl Entry {
    pub const ALL: [Entry; 9] = [
        Entry::FromStr,
        Entry::FromSlice,
        Entry::ReaderC1,
        Entry::ReaderC7,
        Entry::FromMultiple,
        Entry::ReadIter,
        Entry::WithDeStr,
        Entry::WithDeSlice,
        Entry::WithDeReader,
    ];
    pub fn name(self) -> &'static str {
        match self {
            Entry::FromStr => "from_str",
            Entry::FromSlice => "from_slice",
            Entry::ReaderC1 => "from_reader/1-byte-chunks",
            Entry::ReaderC7 => "from_reader/7-byte-chunks",
            Entry::FromMultiple => "from_multiple",
            Entry::ReadIter => "read(iterator, drained)",
            Entry::WithDeStr => "with_deserializer_from_str",
            Entry::WithDeSlice => "with_deserializer_from_slice",
            Entry::WithDeReader => "with_deserializer_from_reader",
        }
    }
    pub fn from_name(n: &str) -> Option<Entry> {
        Entry::ALL.iter().copied().find(|e| e.name() == n)
    }
    /// Entry points whose argument is `&str` (cannot take invalid UTF-8).
    pub fn needs_str(self) -> bool {
        matches!(self, Entry::FromStr | Entry::FromMultiple | Entry::WithDeStr)
    }
    /// Entry points that pull the input through `std::io::Read`.
    pub fn is_reader(self) -> bool {
        matches!(self, Entry::ReaderC1 | Entry::ReaderC7 | Entry::ReadIter | Entry::WithDeReader)
    }
}

// ------------------------------------------------------------------ option vectors

pub const N_OPTVEC: usize = 7;
/// The four vectors of DESIGN §5 C01 are 0..4; 4..7 are extra vectors used by
/// the mutational / pathological parts (robotics expressions, crop radii 0 / 2 /
/// 10^6, tiny alias limits).
pub const OPTVEC_DESC: [&str; N_OPTVEC] = [
    "default",
    "budget off + LastWins + no_schema + strict_booleans + legacy_octal_numbers",
    "FirstWins + tiny budget (events 12, depth 2, nodes 6, docs 2, aliases 1, anchors 1, scalar bytes 8, merge keys 1, reader bytes 64) + crop_radius 1",
    "with_snippet off",
    "angle_conversions + ignore_binary_tag_for_string + crop_radius 2",
    "crop_radius 0",
    "crop_radius 10^6 + alias limits (replayed 3, stack 1, per-anchor 1) + LastWins",
];

#[allow(deprecated)]
pub fn optvec(i: usize) -> Options {
    let mut o = Options::default();
    match i {
        1 => {
            o.budget = None;
            o.duplicate_keys = DuplicateKeyPolicy::LastWins;
            o.no_schema = true;
            o.strict_booleans = true;
            o.legacy_octal_numbers = true;
        }
        2 => {
            o.duplicate_keys = DuplicateKeyPolicy::FirstWins;
            o.budget = Some(Budget {
                max_reader_input_bytes: Some(64),
                max_events: 12,
                max_aliases: 1,
                max_anchors: 1,
                max_depth: 2,
                max_documents: 2,
                max_nodes: 6,
                max_total_scalar_bytes: 8,
                max_merge_keys: 1,
                ..Budget::default()
            });
            o.crop_radius = 1;
        }
        3 => o.with_snippet = false,
        4 => {
            o.angle_conversions = true;
            o.ignore_binary_tag_for_string = true;
            o.crop_radius = 2;
        }
        5 => o.crop_radius = 0,
        6 => {
            o.crop_radius = 1_000_000;
            o.duplicate_keys = DuplicateKeyPolicy::LastWins;
            o.alias_limits.max_total_replayed_events = 3;
            o.alias_limits.max_replay_stack_depth = 1;
            o.alias_limits.max_alias_expansions_per_anchor = 1;
        }
        _ => {}
    }
    o
}

// ------------------------------------------------------------------ result of one call

#[derive(Default)]
pub struct CallRes {
    pub oks: usize,
    pub errs: Vec<Error>,
    /// the streaming iterator yielded more items than the input has bytes + 2
    pub iter_overrun: bool,
}

impl CallRes {
    fn one<T>(r: Result<T, Error>) -> CallRes {
        match r {
            Ok(_) => CallRes { oks: 1, ..Default::default() },
            Err(e) => CallRes { oks: 0, errs: vec![e], iter_overrun: false },
        }
    }
}

/// Marker at the start of the panic message a `FuelReader` uses to break out of a
/// caller that keeps polling it at end of input.
pub const FUEL_MARK: &str = "C01-FUEL";

/// How many `read` calls after the first end-of-input answer a caller may make
/// before the reader gives up on it. A correct caller polls at EOF a few times
/// per token at most; the allowance is far above that (and scales with the input).
/// Set in the confirming child process (`c01 child … nofuel`): the reader never gives up.
pub static NO_FUEL: std::sync::atomic::AtomicBool = std::sync::atomic::AtomicBool::new(false);

pub fn fuel_for(len: usize) -> u64 {
    if NO_FUEL.load(std::sync::atomic::Ordering::Relaxed) {
        return u64::MAX;
    }
    if cfg!(miri) { 5_000 + 4 * len as u64 } else { 50_000 + 16 * len as u64 }
}

/// Chunked in-memory reader. After end of input it keeps answering `Ok(0)`; a
/// caller that polls it more than `fuel` further times is spinning without
/// progress, and the only way to get the worker thread back from such a loop is
/// to unwind out of it: the reader panics with `FUEL_MARK` (the oracle turns
/// that into a *suspected hang*, confirmed separately in a child process whose
/// reader has no fuel limit).
pub struct FuelReader<'a> {
    data: &'a [u8],
    pos: usize,
    chunk: usize,
    after_eof: u64,
    fuel: u64,
}

impl std::io::Read for FuelReader<'_> {
    fn read(&mut self, buf: &mut [u8]) -> std::io::Result<usize> {
        if buf.is_empty() {
            return Ok(0);
        }
        if self.pos >= self.data.len() {
            self.after_eof += 1;
            if self.after_eof > self.fuel {
                panic!("{FUEL_MARK}: reader polled {} times after end of input ({} bytes)", self.after_eof, self.data.len());
            }
            return Ok(0);
        }
        let n = self.chunk.min(buf.len()).min(self.data.len() - self.pos);
        buf[..n].copy_from_slice(&self.data[self.pos..self.pos + n]);
        self.pos += n;
        Ok(n)
    }
}

fn reader<'a>(input: &'a [u8], chunk: usize) -> FuelReader<'a> {
    FuelReader { data: input, pos: 0, chunk: chunk.max(1), after_eof: 0, fuel: fuel_for(input.len()) }
}

/// Upper bound on the number of items a drained `read` iterator may yield: every
/// item consumes at least one document, a document at least one byte.
pub fn iter_item_bound(input_len: usize) -> usize {
    input_len + 3
}

// ------------------------------------------------------------------ targets

pub enum Tgt {
    V(&'static vcore::targets::Target),
    Own { name: &'static str, call: fn(Entry, &[u8], Options) -> Option<CallRes> },
}

impl Tgt {
    pub fn name(&self) -> &'static str {
        match self {
            Tgt::V(t) => t.name,
            Tgt::Own { name, .. } => name,
        }
    }
    /// Run one call. `None` = this (entry, target, input) combination does not
    /// exist (a `&str` entry point with invalid UTF-8, a borrowing target with a
    /// `DeserializeOwned` entry point).
    pub fn call(&self, entry: Entry, input: &[u8], o: Options) -> Option<CallRes> {
        match self {
            Tgt::Own { call, .. } => call(entry, input, o),
            Tgt::V(t) => {
                let s = || std::str::from_utf8(input).ok();
                Some(match entry {
                    Entry::FromStr => CallRes::one((t.from_str)(s()?, o)),
                    Entry::FromSlice => CallRes::one((t.from_slice)(input, o)),
                    Entry::ReaderC1 => CallRes::one((t.from_reader)(&mut reader(input, 1), o)),
                    Entry::ReaderC7 => CallRes::one((t.from_reader)(&mut reader(input, 7), o)),
                    Entry::FromMultiple => CallRes::one((t.from_multiple)(s()?, o)),
                    Entry::ReadIter => {
                        let max = iter_item_bound(input.len());
                        let items = (t.read_iter)(&mut reader(input, 5), o, max);
                        let mut r = CallRes { iter_overrun: items.len() >= max, ..Default::default() };
                        for it in items {
                            match it {
                                Ok(_) => r.oks += 1,
                                Err(e) => r.errs.push(e),
                            }
                        }
                        r
                    }
                    Entry::WithDeStr => CallRes::one((t.with_de_str)(s()?, o)),
                    Entry::WithDeSlice => CallRes::one((t.with_de_slice)(input, o)),
                    Entry::WithDeReader => CallRes::one((t.with_de_reader)(&mut reader(input, 3), o)),
                })
            }
        }
    }
}

fn own<T: DeserializeOwned>(entry: Entry, input: &[u8], o: Options) -> Option<CallRes> {
    let s = || std::str::from_utf8(input).ok();
    Some(match entry {
        Entry::FromStr => CallRes::one(serde_saphyr::from_str_with_options::<T>(s()?, o)),
        Entry::FromSlice => CallRes::one(serde_saphyr::from_slice_with_options::<T>(input, o)),
        Entry::ReaderC1 => CallRes::one(serde_saphyr::from_reader_with_options::<_, T>(reader(input, 1), o)),
        Entry::ReaderC7 => CallRes::one(serde_saphyr::from_reader_with_options::<_, T>(reader(input, 7), o)),
        Entry::FromMultiple => CallRes::one(serde_saphyr::from_multiple_with_options::<T>(s()?, o)),
        Entry::ReadIter => {
            let max = iter_item_bound(input.len());
            let mut rd = reader(input, 5);
            let mut r = CallRes::default();
            let mut n = 0usize;
            for it in serde_saphyr::read_with_options::<_, T>(&mut rd, o) {
                n += 1;
                match it {
                    Ok(_) => r.oks += 1,
                    Err(e) => r.errs.push(e),
                }
                if n >= max {
                    r.iter_overrun = true;
                    break;
                }
            }
            r
        }
        Entry::WithDeStr => {
            CallRes::one(serde_saphyr::with_deserializer_from_str_with_options(s()?, o, |de| T::deserialize(de)))
        }
        Entry::WithDeSlice => {
            CallRes::one(serde_saphyr::with_deserializer_from_slice_with_options(input, o, |de| T::deserialize(de)))
        }
        Entry::WithDeReader => CallRes::one(serde_saphyr::with_deserializer_from_reader_with_options(
            reader(input, 3),
            o,
            |de| T::deserialize(de),
        )),
    })
}

/// Borrowing target: only the entry points that hand out `'de` data exist for it.
#[derive(Deserialize)]
#[allow(dead_code)]
pub struct Borrowed<'a> {
    #[serde(borrow, default)]
    a: Option<&'a str>,
    #[serde(borrow, default, rename = "1")]
    one: Option<&'a str>,
    #[serde(borrow, default, rename = "é")]
    e: Option<Cow<'a, str>>,
    #[serde(borrow, default)]
    k1: Option<&'a str>,
    #[serde(borrow, default)]
    s: Option<&'a [u8]>,
    #[serde(borrow, default)]
    v: Vec<&'a str>,
}

fn borrowed(entry: Entry, input: &[u8], o: Options) -> Option<CallRes> {
    let s = || std::str::from_utf8(input).ok();
    Some(match entry {
        Entry::FromStr => CallRes::one(serde_saphyr::from_str_with_options::<Borrowed>(s()?, o)),
        Entry::FromSlice => CallRes::one(serde_saphyr::from_slice_with_options::<Borrowed>(input, o)),
        Entry::WithDeStr => {
            CallRes::one(serde_saphyr::with_deserializer_from_str_with_options(s()?, o, |de| Borrowed::deserialize(de)))
        }
        Entry::WithDeSlice => CallRes::one(serde_saphyr::with_deserializer_from_slice_with_options(input, o, |de| {
            Borrowed::deserialize(de)
        })),
        _ => return None,
    })
}

fn borrowed_str(entry: Entry, input: &[u8], o: Options) -> Option<CallRes> {
    let s = || std::str::from_utf8(input).ok();
    Some(match entry {
        Entry::FromStr => CallRes::one(serde_saphyr::from_str_with_options::<&str>(s()?, o)),
        Entry::FromSlice => CallRes::one(serde_saphyr::from_slice_with_options::<&str>(input, o)),
        Entry::WithDeStr => {
            CallRes::one(serde_saphyr::with_deserializer_from_str_with_options(s()?, o, |de| <&str>::deserialize(de)))
        }
        _ => return None,
    })
}

#[derive(Deserialize)]
#[allow(dead_code)]
pub struct RcInner {
    #[serde(default)]
    a: Option<RcAnchor<String>>,
    #[serde(default)]
    k1: Option<RcAnchor<Vec<RcAnchor<String>>>>,
}

#[derive(Deserialize)]
#[allow(dead_code)]
pub struct RcDoc {
    #[serde(default)]
    a: Option<RcAnchor<RcInner>>,
    #[serde(default, rename = "1")]
    one: Option<RcAnchor<String>>,
    #[serde(default, rename = "é")]
    e: Option<serde_saphyr::ArcAnchor<String>>,
    #[serde(default)]
    k1: Option<RcAnchor<RcInner>>,
    #[serde(default)]
    k2: Option<serde_saphyr::RcWeakAnchor<RcInner>>,
    #[serde(default)]
    v: Vec<RcAnchor<String>>,
}

// ---- recursive types for the nesting families

#[derive(Deserialize)]
#[allow(dead_code)]
pub struct DeepMap {
    #[serde(default)]
    a: Option<Box<DeepMap>>,
    #[serde(default)]
    b: Vec<DeepMap>,
}

#[derive(Deserialize)]
#[allow(dead_code)]
#[serde(transparent)]
pub struct DeepSeq(Vec<DeepSeq>);

#[derive(Deserialize)]
#[allow(dead_code)]
pub enum EnumNest {
    New(Box<EnumNest>),
    St { a: Box<EnumNest> },
    Seq(Vec<EnumNest>),
    Unit,
}

#[derive(Deserialize)]
#[allow(dead_code)]
pub struct RcNest {
    #[serde(default)]
    a: Option<RcAnchor<RcNest>>,
    #[serde(default)]
    b: Vec<RcAnchor<RcNest>>,
}

static OWN: &[Tgt] = &[
    Tgt::Own { name: "Borrowed{&str,Cow,&[u8],Vec<&str>}", call: borrowed },
    Tgt::Own { name: "RcDoc{RcAnchor,ArcAnchor,RcWeakAnchor}", call: own::<RcDoc> },
    Tgt::Own { name: "&str", call: borrowed_str },
    Tgt::Own { name: "DeepMap", call: own::<DeepMap> },
    Tgt::Own { name: "DeepSeq", call: own::<DeepSeq> },
    Tgt::Own { name: "EnumNest", call: own::<EnumNest> },
    Tgt::Own { name: "RcNest", call: own::<RcNest> },
    Tgt::Own { name: "MapStrVecI64", call: own::<std::collections::BTreeMap<String, Vec<i64>>> },
    Tgt::Own { name: "f64", call: own::<f64> },
    Tgt::Own { name: "MapStrDeepSeq", call: own::<std::collections::BTreeMap<String, DeepSeq>> },
];

/// Every target: the vcore family followed by the ones defined here.
pub fn all() -> Vec<Tgt> {
    let mut v: Vec<Tgt> = vcore::targets::all().iter().map(Tgt::V).collect();
    for t in OWN {
        if let Tgt::Own { name, call } = t {
            v.push(Tgt::Own { name, call: *call });
        }
    }
    v
}

pub fn by_name(n: &str) -> Option<Tgt> {
    all().into_iter().find(|t| t.name() == n)
}

/// The nine targets of DESIGN §5 C01 used for the exhaustive cross product.
pub const CROSS_TARGETS: [&str; 9] = [
    "Val",
    "json",
    "Ignored",
    "Mixed",
    "MapStrVecI64",
    "En",
    "TupU8Str",
    "Borrowed{&str,Cow,&[u8],Vec<&str>}",
    "RcDoc{RcAnchor,ArcAnchor,RcWeakAnchor}",
];
