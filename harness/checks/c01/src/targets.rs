//! Entry points x option vectors x targets of the C01 workload.
//!
//! Every public deserialization entry point is reachable through `Entry`: the
//! `*_with_options` functions one by one, the option-less wrappers together
//! (`Defaults`), and — for targets that implement them — the garde (`*_valid`)
//! and validator (`*_validate`) families behind the same `Entry` values.
//! Targets: the `vcore::targets` types plus borrowed, anchor-wrapper, `Spanned`,
//! serde-attribute (tagged / untagged / flatten) and recursive types defined here.

use serde::Deserialize;
use serde::de::DeserializeOwned;
use serde_saphyr::{Budget, DuplicateKeyPolicy, Error, Options, RcAnchor};
use std::borrow::Cow;
use std::collections::BTreeMap;
use validator::Validate as _;
use vcore::targets as vt;

// ------------------------------------------------------------------ entry points

#[derive(Clone, Copy, PartialEq, Eq, Debug)]
pub enum Entry {
    FromStr,
    FromSlice,
    ReaderC1,
    ReaderC7,
    FromMultiple,
    FromSliceMultiple,
    ReadIter,
    ReadAbandon,
    WithDeStr,
    WithDeSlice,
    WithDeReader,
    Defaults,
}

impl Entry {
    pub const ALL: [Entry; 12] = [
        Entry::FromStr,
        Entry::FromSlice,
        Entry::ReaderC1,
        Entry::ReaderC7,
        Entry::FromMultiple,
        Entry::FromSliceMultiple,
        Entry::ReadIter,
        Entry::ReadAbandon,
        Entry::WithDeStr,
        Entry::WithDeSlice,
        Entry::WithDeReader,
        Entry::Defaults,
    ];
    pub fn name(self) -> &'static str {
        match self {
            Entry::FromStr => "from_str",
            Entry::FromSlice => "from_slice",
            Entry::ReaderC1 => "from_reader/1-byte-chunks",
            Entry::ReaderC7 => "from_reader/7-byte-chunks",
            Entry::FromMultiple => "from_multiple",
            Entry::FromSliceMultiple => "from_slice_multiple",
            Entry::ReadIter => "read(iterator, drained)",
            Entry::ReadAbandon => "read(iterator, dropped after the first item)",
            Entry::WithDeStr => "with_deserializer_from_str",
            Entry::WithDeSlice => "with_deserializer_from_slice",
            Entry::WithDeReader => "with_deserializer_from_reader",
            Entry::Defaults => "option-less wrappers (from_str, from_slice, from_reader, from_multiple, from_slice_multiple, read, with_deserializer_from_*)",
        }
    }
    pub fn from_name(n: &str) -> Option<Entry> {
        Entry::ALL.iter().copied().find(|e| e.name() == n)
    }
    /// Entry points whose argument is `&str` (cannot take invalid UTF-8).
    pub fn needs_str(self) -> bool {
        matches!(self, Entry::FromStr | Entry::FromMultiple | Entry::WithDeStr)
    }
    /// Entry points that pull the input through `std::io::Read`.
    pub fn is_reader(self) -> bool {
        matches!(self, Entry::ReaderC1 | Entry::ReaderC7 | Entry::ReadIter | Entry::ReadAbandon | Entry::WithDeReader | Entry::Defaults)
    }
}

// ------------------------------------------------------------------ option vectors

pub const N_OPTVEC: usize = 7;
/// Indices 0..7 are fixed vectors (0..4 are the four of DESIGN §5 C01). An index
/// >= `OPT_BITS_BASE` encodes an arbitrary configuration in its low bits (see
/// `optvec`), so that random option vectors stay replayable from the number.
pub const OPT_BITS_BASE: usize = 1 << 20;
pub const OPTVEC_DESC: [&str; N_OPTVEC] = [
    "default",
    "budget off + LastWins + no_schema + strict_booleans + legacy_octal_numbers",
    "FirstWins + tiny budget (events 12, depth 2, nodes 6, docs 2, aliases 1, anchors 1, scalar bytes 8, merge keys 1, reader bytes 64) + crop_radius 1",
    "with_snippet off",
    "angle_conversions + ignore_binary_tag_for_string + crop_radius 2",
    "crop_radius 0",
    "crop_radius 10^6 + alias limits (replayed 3, stack 1, per-anchor 1) + LastWins",
];

pub fn opt_desc(i: usize) -> String {
    if i < N_OPTVEC {
        OPTVEC_DESC[i].to_string()
    } else {
        format!("bit-encoded configuration {:#x}: {:?}", i - OPT_BITS_BASE, optvec(i))
    }
}

fn budget_report_sink(_r: &serde_saphyr::budget::BudgetReport) {}

#[allow(deprecated)]
pub fn optvec(i: usize) -> Options {
    let mut o = Options::default();
    if i >= OPT_BITS_BASE {
        // bit-encoded configuration: every public field of Options / Budget / AliasLimits takes part
        let b = i - OPT_BITS_BASE;
        let bit = |k: usize| (b >> k) & 1 == 1;
        o.duplicate_keys = match b & 3 {
            0 => DuplicateKeyPolicy::Error,
            1 => DuplicateKeyPolicy::FirstWins,
            _ => DuplicateKeyPolicy::LastWins,
        };
        o.legacy_octal_numbers = bit(2);
        o.strict_booleans = bit(3);
        o.ignore_binary_tag_for_string = bit(4);
        o.angle_conversions = bit(5);
        o.no_schema = bit(6);
        o.with_snippet = !bit(7);
        o.crop_radius = [64, 0, 1, 2, 3, 7, 1_000_000, usize::MAX][(b >> 8) & 7];
        o.budget = match (b >> 11) & 3 {
            0 => Some(Budget::default()),
            1 => None,
            2 => Some(Budget {
                max_reader_input_bytes: Some(48),
                max_events: 20,
                max_aliases: 2,
                max_anchors: 2,
                max_depth: 3,
                max_documents: 2,
                max_nodes: 9,
                max_total_scalar_bytes: 24,
                max_merge_keys: 1,
                enforce_alias_anchor_ratio: true,
                alias_anchor_min_aliases: 1,
                alias_anchor_ratio_multiplier: 1,
            }),
            _ => Some(Budget {
                max_reader_input_bytes: None,
                max_events: 0,
                max_aliases: 0,
                max_anchors: 0,
                max_depth: 0,
                max_documents: 0,
                max_nodes: 0,
                max_total_scalar_bytes: 0,
                max_merge_keys: 0,
                enforce_alias_anchor_ratio: false,
                alias_anchor_min_aliases: 0,
                alias_anchor_ratio_multiplier: 0,
            }),
        };
        match (b >> 13) & 3 {
            1 => {
                o.alias_limits.max_total_replayed_events = 0;
                o.alias_limits.max_replay_stack_depth = 0;
                o.alias_limits.max_alias_expansions_per_anchor = 0;
            }
            2 => {
                o.alias_limits.max_total_replayed_events = 5;
                o.alias_limits.max_replay_stack_depth = 2;
                o.alias_limits.max_alias_expansions_per_anchor = 2;
            }
            3 => {
                // (never all three unlimited: with the limits off an alias bomb is allowed to take
                // exponential time, and no bound on progress is stated for that configuration)
                o.alias_limits.max_total_replayed_events = 2_000;
                o.alias_limits.max_replay_stack_depth = usize::MAX;
                o.alias_limits.max_alias_expansions_per_anchor = usize::MAX;
            }
            _ => {}
        }
        if bit(15) {
            o.budget_report = Some(budget_report_sink);
        }
        if bit(16) {
            o = o.with_budget_report(|r| {
                std::hint::black_box(&r);
            });
        }
        return o;
    }
    match i {
        1 => {
            o.budget = None;
            o.duplicate_keys = DuplicateKeyPolicy::LastWins;
            o.no_schema = true;
            o.strict_booleans = true;
            o.legacy_octal_numbers = true;
        }
        2 => {
            o.duplicate_keys = DuplicateKeyPolicy::FirstWins;
            o.budget = Some(Budget {
                max_reader_input_bytes: Some(64),
                max_events: 12,
                max_aliases: 1,
                max_anchors: 1,
                max_depth: 2,
                max_documents: 2,
                max_nodes: 6,
                max_total_scalar_bytes: 8,
                max_merge_keys: 1,
                ..Budget::default()
            });
            o.crop_radius = 1;
        }
        3 => o.with_snippet = false,
        4 => {
            o.angle_conversions = true;
            o.ignore_binary_tag_for_string = true;
            o.crop_radius = 2;
        }
        5 => o.crop_radius = 0,
        6 => {
            o.crop_radius = 1_000_000;
            o.duplicate_keys = DuplicateKeyPolicy::LastWins;
            o.alias_limits.max_total_replayed_events = 3;
            o.alias_limits.max_replay_stack_depth = 1;
            o.alias_limits.max_alias_expansions_per_anchor = 1;
        }
        _ => {}
    }
    o
}

/// Number of bits a random bit-encoded option vector uses.
pub const OPT_BITS: usize = 17;

// ------------------------------------------------------------------ result of one call

#[derive(Default)]
pub struct CallRes {
    pub oks: usize,
    pub errs: Vec<Error>,
    /// the streaming iterator yielded more items than the input has bytes + 2
    pub iter_overrun: bool,
}

impl CallRes {
    fn one<T>(r: Result<T, Error>) -> CallRes {
        let mut c = CallRes::default();
        c.add(r);
        c
    }
    fn add<T>(&mut self, r: Result<T, Error>) {
        match r {
            Ok(_) => self.oks += 1,
            Err(e) => self.errs.push(e),
        }
    }
}

/// Marker at the start of the panic message a `FuelReader` uses to break out of a
/// caller that keeps polling it at end of input.
pub const FUEL_MARK: &str = "C01-FUEL";

/// How many `read` calls after the first end-of-input answer a caller may make
/// before the reader gives up on it. A correct caller polls at EOF a few times
/// per token at most; the allowance is far above that (and scales with the input).
/// Set in the confirming child process (`c01 child … nofuel`): the reader never gives up.
pub static NO_FUEL: std::sync::atomic::AtomicBool = std::sync::atomic::AtomicBool::new(false);

pub fn fuel_for(len: usize) -> u64 {
    if NO_FUEL.load(std::sync::atomic::Ordering::Relaxed) {
        return u64::MAX;
    }
    if cfg!(miri) { 5_000 + 4 * len as u64 } else { 50_000 + 16 * len as u64 }
}

/// Chunked in-memory reader. After end of input it keeps answering `Ok(0)`; a
/// caller that polls it more than `fuel` further times is spinning without
/// progress, and the only way to get the worker thread back from such a loop is
/// to unwind out of it: the reader panics with `FUEL_MARK` (the oracle turns
/// that into a *suspected hang*, confirmed separately in a child process whose
/// reader has no fuel limit).
pub struct FuelReader<'a> {
    data: &'a [u8],
    pos: usize,
    chunk: usize,
    after_eof: u64,
    fuel: u64,
}

impl std::io::Read for FuelReader<'_> {
    fn read(&mut self, buf: &mut [u8]) -> std::io::Result<usize> {
        if buf.is_empty() {
            return Ok(0);
        }
        if self.pos >= self.data.len() {
            self.after_eof += 1;
            if self.after_eof > self.fuel {
                panic!("{FUEL_MARK}: reader polled {} times after end of input ({} bytes)", self.after_eof, self.data.len());
            }
            return Ok(0);
        }
        let n = self.chunk.min(buf.len()).min(self.data.len() - self.pos);
        buf[..n].copy_from_slice(&self.data[self.pos..self.pos + n]);
        self.pos += n;
        Ok(n)
    }
}

fn reader<'a>(input: &'a [u8], chunk: usize) -> FuelReader<'a> {
    FuelReader { data: input, pos: 0, chunk: chunk.max(1), after_eof: 0, fuel: fuel_for(input.len()) }
}

/// Upper bound on the number of items a drained `read` iterator may yield: every
/// item consumes at least one document, a document at least one byte.
pub fn iter_item_bound(input_len: usize) -> usize {
    input_len + 3
}

/// Drain an iterator with the item bound; after it has returned `None`, poll it
/// twice more (a finished iterator must stay harmless).
fn drain<T, I: Iterator<Item = Result<T, Error>>>(mut it: I, input_len: usize) -> CallRes {
    let max = iter_item_bound(input_len);
    let mut r = CallRes::default();
    let mut n = 0usize;
    loop {
        match it.next() {
            None => break,
            Some(x) => {
                n += 1;
                r.add(x);
                if n >= max {
                    r.iter_overrun = true;
                    return r;
                }
            }
        }
    }
    for _ in 0..2 {
        if let Some(x) = it.next() {
            r.add(x);
        }
    }
    r
}

fn first_then_drop<T, I: Iterator<Item = Result<T, Error>>>(mut it: I) -> CallRes {
    let mut r = CallRes::default();
    if let Some(x) = it.next() {
        r.add(x);
    }
    drop(it);
    r
}

// ------------------------------------------------------------------ dispatch

/// One dispatcher per API family (plain / garde `*_valid` / validator `*_validate`).
macro_rules! dispatcher {
    ($fname:ident, [$($bound:tt)*], $fs:path, $fsl:path, $fr:path, $fm:path, $fslm:path, $rd:path,
     defaults: [$dfs:path, $dfsl:path, $dfr:path, $dfm:path, $drd:path], with_de: $with_de:tt) => {
        fn $fname<T>(entry: Entry, input: &[u8], o: Options) -> Option<CallRes>
        where
            T: DeserializeOwned + $($bound)*,
        {
            let s = || std::str::from_utf8(input).ok();
            Some(match entry {
                Entry::FromStr => {
                    let r: Result<T, Error> = $fs(s()?, o);
                    CallRes::one(r)
                }
                Entry::FromSlice => {
                    let r: Result<T, Error> = $fsl(input, o);
                    CallRes::one(r)
                }
                Entry::ReaderC1 => {
                    let r: Result<T, Error> = $fr(reader(input, 1), o);
                    CallRes::one(r)
                }
                Entry::ReaderC7 => {
                    let r: Result<T, Error> = $fr(reader(input, 7), o);
                    CallRes::one(r)
                }
                Entry::FromMultiple => {
                    let r: Result<Vec<T>, Error> = $fm(s()?, o);
                    CallRes::one(r)
                }
                Entry::FromSliceMultiple => {
                    let r: Result<Vec<T>, Error> = $fslm(input, o);
                    CallRes::one(r)
                }
                Entry::ReadIter => {
                    let mut rd = reader(input, 5);
                    drain::<T, _>($rd(&mut rd, o), input.len())
                }
                Entry::ReadAbandon => {
                    let mut rd = reader(input, 4096);
                    first_then_drop::<T, _>($rd(&mut rd, o))
                }
                Entry::Defaults => {
                    let mut r = CallRes::default();
                    if let Some(s) = s() {
                        let x: Result<T, Error> = $dfs(s);
                        r.add(x);
                        let x: Result<Vec<T>, Error> = $dfm(s);
                        r.add(x);
                    }
                    let x: Result<T, Error> = $dfsl(input);
                    r.add(x);
                    let x: Result<T, Error> = $dfr(reader(input, 64));
                    r.add(x);
                    let mut rd = reader(input, 64);
                    let d = drain::<T, _>($drd(&mut rd), input.len());
                    r.oks += d.oks;
                    r.errs.extend(d.errs);
                    r.iter_overrun |= d.iter_overrun;
                    dispatcher!(@with_de_defaults $with_de, T, r, input, s);
                    r
                }
                Entry::WithDeStr | Entry::WithDeSlice | Entry::WithDeReader => {
                    dispatcher!(@with_de $with_de, T, entry, input, o, s)
                }
            })
        }
    };
    (@with_de yes, $T:ty, $entry:ident, $input:ident, $o:ident, $s:ident) => {
        match $entry {
            Entry::WithDeStr => CallRes::one(serde_saphyr::with_deserializer_from_str_with_options($s()?, $o, |de| <$T>::deserialize(de))),
            Entry::WithDeSlice => CallRes::one(serde_saphyr::with_deserializer_from_slice_with_options($input, $o, |de| <$T>::deserialize(de))),
            _ => CallRes::one(serde_saphyr::with_deserializer_from_reader_with_options(reader($input, 3), $o, |de| <$T>::deserialize(de))),
        }
    };
    (@with_de no, $T:ty, $entry:ident, $input:ident, $o:ident, $s:ident) => {
        return None
    };
    (@with_de_defaults yes, $T:ty, $r:ident, $input:ident, $s:ident) => {
        if let Some(s) = $s() {
            $r.add(serde_saphyr::with_deserializer_from_str(s, |de| <$T>::deserialize(de)));
        }
        $r.add(serde_saphyr::with_deserializer_from_slice($input, |de| <$T>::deserialize(de)));
        $r.add(serde_saphyr::with_deserializer_from_reader(reader($input, 64), |de| <$T>::deserialize(de)));
    };
    (@with_de_defaults no, $T:ty, $r:ident, $input:ident, $s:ident) => {};
}

fn read_boxed<'a, R: std::io::Read + 'a, T: DeserializeOwned + 'a>(r: &'a mut R) -> Box<dyn Iterator<Item = Result<T, Error>> + 'a> {
    Box::new(serde_saphyr::read::<R, T>(r))
}

dispatcher!(
    own,
    [Sized],
    serde_saphyr::from_str_with_options,
    serde_saphyr::from_slice_with_options,
    serde_saphyr::from_reader_with_options,
    serde_saphyr::from_multiple_with_options,
    serde_saphyr::from_slice_multiple_with_options,
    serde_saphyr::read_with_options,
    defaults: [serde_saphyr::from_str, serde_saphyr::from_slice, serde_saphyr::from_reader, serde_saphyr::from_multiple, read_boxed],
    with_de: yes
);

fn garde_fsm_default<T: DeserializeOwned + garde::Validate>(s: &str) -> Result<Vec<T>, Error>
where
    <T as garde::Validate>::Context: Default,
{
    serde_saphyr::from_multiple_valid::<T>(s)
}

trait GardeOk: garde::Validate<Context = ()> {}
impl<T: garde::Validate<Context = ()>> GardeOk for T {}

dispatcher!(
    own_garde,
    [GardeOk],
    serde_saphyr::from_str_with_options_valid,
    serde_saphyr::from_slice_with_options_valid,
    serde_saphyr::from_reader_with_options_valid,
    serde_saphyr::from_multiple_with_options_valid,
    serde_saphyr::from_slice_multiple_with_options_valid,
    serde_saphyr::read_with_options_valid,
    defaults: [serde_saphyr::from_str_valid, serde_saphyr::from_slice_valid, serde_saphyr::from_reader_valid, garde_fsm_default, serde_saphyr::read_valid],
    with_de: no
);

dispatcher!(
    own_validator,
    [validator::Validate],
    serde_saphyr::from_str_with_options_validate,
    serde_saphyr::from_slice_with_options_validate,
    serde_saphyr::from_reader_with_options_validate,
    serde_saphyr::from_multiple_with_options_validate,
    serde_saphyr::from_slice_multiple_with_options_validate,
    serde_saphyr::read_with_options_validate,
    defaults: [serde_saphyr::from_str_validate, serde_saphyr::from_slice_validate, serde_saphyr::from_reader_validate, serde_saphyr::from_multiple_validate, serde_saphyr::read_validate],
    with_de: no
);

// ------------------------------------------------------------------ targets

pub struct Tgt {
    pub name: &'static str,
    pub call: fn(Entry, &[u8], Options) -> Option<CallRes>,
}

impl Tgt {
    pub fn name(&self) -> &'static str {
        self.name
    }
    /// Run one call. `None` = this (entry, target, input) combination does not
    /// exist (a `&str` entry point with invalid UTF-8, a borrowing target with a
    /// `DeserializeOwned` entry point, a validating family without closure helpers).
    pub fn call(&self, entry: Entry, input: &[u8], o: Options) -> Option<CallRes> {
        (self.call)(entry, input, o)
    }
}

/// Borrowing target: only the entry points that hand out `'de` data exist for it.
#[derive(Deserialize)]
#[allow(dead_code)]
pub struct Borrowed<'a> {
    #[serde(borrow, default)]
    a: Option<&'a str>,
    #[serde(borrow, default, rename = "1")]
    one: Option<&'a str>,
    #[serde(borrow, default, rename = "é")]
    e: Option<Cow<'a, str>>,
    #[serde(borrow, default)]
    k1: Option<&'a str>,
    #[serde(borrow, default)]
    s: Option<&'a [u8]>,
    #[serde(borrow, default)]
    v: Vec<&'a str>,
}

fn borrowed(entry: Entry, input: &[u8], o: Options) -> Option<CallRes> {
    let s = || std::str::from_utf8(input).ok();
    Some(match entry {
        Entry::FromStr => CallRes::one(serde_saphyr::from_str_with_options::<Borrowed>(s()?, o)),
        Entry::FromSlice => CallRes::one(serde_saphyr::from_slice_with_options::<Borrowed>(input, o)),
        Entry::WithDeStr => {
            CallRes::one(serde_saphyr::with_deserializer_from_str_with_options(s()?, o, |de| Borrowed::deserialize(de)))
        }
        Entry::WithDeSlice => CallRes::one(serde_saphyr::with_deserializer_from_slice_with_options(input, o, |de| {
            Borrowed::deserialize(de)
        })),
        _ => return None,
    })
}

fn borrowed_str(entry: Entry, input: &[u8], o: Options) -> Option<CallRes> {
    let s = || std::str::from_utf8(input).ok();
    Some(match entry {
        Entry::FromStr => CallRes::one(serde_saphyr::from_str_with_options::<&str>(s()?, o)),
        Entry::FromSlice => CallRes::one(serde_saphyr::from_slice_with_options::<&str>(input, o)),
        Entry::WithDeStr => {
            CallRes::one(serde_saphyr::with_deserializer_from_str_with_options(s()?, o, |de| <&str>::deserialize(de)))
        }
        _ => return None,
    })
}

#[derive(Deserialize)]
#[allow(dead_code)]
pub struct RcInner {
    #[serde(default)]
    a: Option<RcAnchor<String>>,
    #[serde(default)]
    k1: Option<RcAnchor<Vec<RcAnchor<String>>>>,
}

#[derive(Deserialize)]
#[allow(dead_code)]
pub struct RcDoc {
    #[serde(default)]
    a: Option<RcAnchor<RcInner>>,
    #[serde(default, rename = "1")]
    one: Option<RcAnchor<String>>,
    #[serde(default, rename = "é")]
    e: Option<serde_saphyr::ArcAnchor<String>>,
    #[serde(default)]
    k1: Option<RcAnchor<RcInner>>,
    #[serde(default)]
    k2: Option<serde_saphyr::RcWeakAnchor<RcInner>>,
    #[serde(default)]
    v: Vec<RcAnchor<String>>,
}

// ---- recursive types for the nesting families

#[derive(Deserialize)]
#[allow(dead_code)]
pub struct DeepMap {
    #[serde(default)]
    a: Option<Box<DeepMap>>,
    #[serde(default)]
    b: Vec<DeepMap>,
}

#[derive(Deserialize)]
#[allow(dead_code)]
#[serde(transparent)]
pub struct DeepSeq(Vec<DeepSeq>);

#[derive(Deserialize)]
#[allow(dead_code)]
pub enum EnumNest {
    New(Box<EnumNest>),
    St { a: Box<EnumNest> },
    Seq(Vec<EnumNest>),
    Unit,
}

#[derive(Deserialize)]
#[allow(dead_code)]
pub struct RcNest {
    #[serde(default)]
    a: Option<RcAnchor<RcNest>>,
    #[serde(default)]
    b: Vec<RcAnchor<RcNest>>,
}

// ---- recursive anchor wrappers (strong parent + weak back references)

#[derive(Deserialize)]
#[allow(dead_code)]
pub struct King {
    #[serde(default)]
    a: Option<String>,
    #[serde(default)]
    k1: Option<serde_saphyr::RcRecursion<King>>,
    #[serde(default)]
    v: Vec<serde_saphyr::RcRecursion<King>>,
}

#[derive(Deserialize)]
#[allow(dead_code)]
pub struct Kingdom {
    #[serde(default)]
    a: Option<serde_saphyr::RcRecursive<King>>,
    #[serde(default)]
    k1: Option<serde_saphyr::RcRecursive<King>>,
    #[serde(default)]
    k2: Option<serde_saphyr::RcRecursion<King>>,
}

#[derive(Deserialize)]
#[allow(dead_code)]
pub struct ArcKing {
    #[serde(default)]
    a: Option<String>,
    #[serde(default)]
    k1: Option<serde_saphyr::ArcRecursion<ArcKing>>,
}

#[derive(Deserialize)]
#[allow(dead_code)]
pub struct ArcKingdom {
    #[serde(default)]
    a: Option<serde_saphyr::ArcRecursive<ArcKing>>,
    #[serde(default)]
    k1: Option<serde_saphyr::ArcWeakAnchor<String>>,
    #[serde(default)]
    k2: Option<serde_saphyr::ArcAnchor<Vec<serde_saphyr::ArcAnchor<String>>>>,
}

// ---- Spanned

#[derive(Deserialize)]
#[allow(dead_code)]
pub struct SpannedDoc {
    #[serde(default)]
    a: Option<serde_saphyr::Spanned<String>>,
    #[serde(default, rename = "1")]
    one: Option<serde_saphyr::Spanned<i64>>,
    #[serde(default)]
    k1: Option<serde_saphyr::Spanned<vcore::Val>>,
    #[serde(default)]
    v: Vec<serde_saphyr::Spanned<Option<f64>>>,
    #[serde(default)]
    m: BTreeMap<String, serde_saphyr::Spanned<bool>>,
}

// ---- scalar widths and serde data-model corners

#[derive(Deserialize)]
#[allow(dead_code)]
pub struct UnitS;
#[derive(Deserialize)]
#[allow(dead_code)]
pub struct NewT(i16);
#[derive(Deserialize)]
#[allow(dead_code)]
pub struct TupS(u8, Option<char>, String);

#[derive(Deserialize)]
#[allow(dead_code)]
pub struct Exotic {
    #[serde(default)]
    a: Option<i8>,
    #[serde(default, rename = "1")]
    one: Option<u16>,
    #[serde(default)]
    k1: Option<i128>,
    #[serde(default)]
    k2: Option<u128>,
    #[serde(default)]
    k3: Option<f32>,
    #[serde(default)]
    c: Option<char>,
    #[serde(default)]
    u: Option<UnitS>,
    #[serde(default)]
    n: Option<NewT>,
    #[serde(default)]
    t: Option<TupS>,
    #[serde(default)]
    s: Option<Cow<'static, str>>,
    #[serde(default)]
    b: Option<Option<()>>,
    #[serde(default)]
    v: Option<[u8; 2]>,
    #[serde(default)]
    m: Option<BTreeMap<i64, bool>>,
    #[serde(default)]
    e: Option<Box<Exotic>>,
    #[serde(default)]
    y: Option<std::collections::HashMap<String, u64>>,
    #[serde(default)]
    f: Option<u64>,
}

#[derive(Deserialize)]
#[allow(dead_code)]
#[serde(tag = "a")]
pub enum Internal {
    #[serde(rename = "1")]
    One { k1: Option<i64> },
    #[serde(rename = "a")]
    A { v: Vec<String> },
    Unit,
}

#[derive(Deserialize)]
#[allow(dead_code)]
#[serde(untagged)]
pub enum Untagged {
    I(i64),
    B(bool),
    S(String),
    Seq(Vec<Untagged>),
    Map(BTreeMap<String, Untagged>),
    N(()),
}

#[derive(Deserialize)]
#[allow(dead_code)]
#[serde(tag = "a", content = "k1")]
pub enum Adjacent {
    #[serde(rename = "1")]
    One(i64),
    #[serde(rename = "a")]
    A(Vec<String>),
    Unit,
}

#[derive(Deserialize)]
#[allow(dead_code)]
pub struct Flat {
    #[serde(default)]
    a: Option<String>,
    #[serde(flatten)]
    rest: BTreeMap<String, vcore::Val>,
}

#[derive(Deserialize)]
#[allow(dead_code)]
#[serde(deny_unknown_fields)]
pub struct FlatTyped {
    #[serde(default)]
    k1: Option<i64>,
    #[serde(flatten)]
    inner: FlatInner,
}
#[derive(Deserialize)]
#[allow(dead_code)]
pub struct FlatInner {
    #[serde(default)]
    a: Option<vcore::Val>,
    #[serde(default, rename = "1")]
    one: Option<vt::En>,
}

// ---- validating targets (constraints chosen so that ordinary small documents violate some of them)

#[derive(Deserialize, garde::Validate)]
#[allow(dead_code)]
pub struct GardeInner {
    #[serde(default)]
    #[garde(length(min = 2, max = 4))]
    a: String,
    #[serde(default)]
    #[garde(inner(range(min = 2, max = 5)))]
    v: Vec<i64>,
}

#[derive(Deserialize, garde::Validate)]
#[allow(dead_code)]
pub struct GardeCfg {
    #[serde(default)]
    #[garde(length(min = 2))]
    a: Option<String>,
    #[serde(default, rename = "1")]
    #[garde(range(min = 3, max = 9))]
    one: Option<i64>,
    #[serde(default)]
    #[garde(dive)]
    k1: Option<GardeInner>,
    #[serde(default)]
    #[garde(dive)]
    v: Vec<GardeInner>,
    #[serde(default)]
    #[garde(length(min = 1), inner(ascii))]
    k2: Vec<String>,
    #[serde(default)]
    #[garde(skip)]
    k3: Option<vcore::Val>,
}

#[derive(Deserialize, validator::Validate)]
#[allow(dead_code)]
pub struct ValidatorInner {
    #[serde(default)]
    #[validate(length(min = 2, max = 4))]
    a: String,
    #[serde(default)]
    #[validate(range(min = 2, max = 5))]
    k1: i64,
}

#[derive(Deserialize, validator::Validate)]
#[allow(dead_code)]
pub struct ValidatorCfg {
    #[serde(default)]
    #[validate(length(min = 2))]
    a: Option<String>,
    #[serde(default, rename = "1")]
    #[validate(range(min = 3, max = 9))]
    one: Option<i64>,
    #[serde(default)]
    #[validate(nested)]
    k1: Option<ValidatorInner>,
    #[serde(default)]
    #[validate(nested)]
    v: Vec<ValidatorInner>,
    #[serde(default)]
    #[validate(length(min = 1))]
    k2: Vec<String>,
    #[serde(default)]
    k3: Option<vcore::Val>,
}

macro_rules! t {
    ($name:expr, $ty:ty) => {
        Tgt { name: $name, call: own::<$ty> }
    };
}

static TARGETS: &[Tgt] = &[
    // the vcore family
    t!("Val", vcore::Val),
    t!("json", serde_json::Value),
    t!("VecVal", Vec<vcore::Val>),
    t!("MapStrVal", BTreeMap<String, vcore::Val>),
    t!("VecString", Vec<String>),
    t!("VecOptI64", Vec<Option<i64>>),
    t!("MapStrVecString", BTreeMap<String, Vec<String>>),
    t!("Rec", vt::Rec),
    t!("Strict", vt::Strict),
    t!("En", vt::En),
    t!("Mixed", vt::Mixed),
    t!("OptVal", Option<vcore::Val>),
    t!("String", String),
    t!("TupU8Str", (u8, String)),
    t!("Ignored", serde::de::IgnoredAny),
    t!("MapValVal", BTreeMap<vcore::Val, vcore::Val>),
    t!("VecPairs", Vec<BTreeMap<String, vcore::Val>>),
    // borrowed / anchor wrappers / recursive
    Tgt { name: "Borrowed{&str,Cow,&[u8],Vec<&str>}", call: borrowed },
    t!("RcDoc{RcAnchor,ArcAnchor,RcWeakAnchor}", RcDoc),
    Tgt { name: "&str", call: borrowed_str },
    t!("DeepMap", DeepMap),
    t!("DeepSeq", DeepSeq),
    t!("EnumNest", EnumNest),
    t!("RcNest", RcNest),
    t!("MapStrVecI64", BTreeMap<String, Vec<i64>>),
    t!("f64", f64),
    t!("MapStrDeepSeq", BTreeMap<String, DeepSeq>),
    // added for the deepening round
    t!("Kingdom{RcRecursive,RcRecursion}", Kingdom),
    t!("ArcKingdom{ArcRecursive,ArcRecursion,ArcWeakAnchor}", ArcKingdom),
    t!("SpannedDoc", SpannedDoc),
    t!("Spanned<Val>", serde_saphyr::Spanned<vcore::Val>),
    t!("Exotic{int widths,char,unit,newtype,tuple struct,array,HashMap}", Exotic),
    t!("Internal(tag)", Internal),
    t!("Untagged", Untagged),
    t!("Adjacent(tag,content)", Adjacent),
    t!("Flat(flatten->map)", Flat),
    t!("FlatTyped(flatten,deny_unknown)", FlatTyped),
    t!("Bytes", vt::Bytes),
    t!("bool", bool),
    t!("char", char),
    t!("u8", u8),
    t!("i128", i128),
    t!("f32", f32),
    t!("unit", ()),
    t!("VecF32", Vec<f32>),
    Tgt { name: "GardeCfg(*_valid)", call: own_garde::<GardeCfg> },
    Tgt { name: "ValidatorCfg(*_validate)", call: own_validator::<ValidatorCfg> },
];

/// Every target.
pub fn all() -> &'static [Tgt] {
    TARGETS
}

pub fn by_name(n: &str) -> Option<&'static Tgt> {
    TARGETS.iter().find(|t| t.name == n)
}

/// The targets of the exhaustive cross product: the nine of DESIGN §5 C01 plus
/// the two validating families (their `*_valid` / `*_validate` entry points).
pub const CROSS_TARGETS: [&str; 11] = [
    "Val",
    "json",
    "Ignored",
    "Mixed",
    "MapStrVecI64",
    "En",
    "TupU8Str",
    "Borrowed{&str,Cow,&[u8],Vec<&str>}",
    "RcDoc{RcAnchor,ArcAnchor,RcWeakAnchor}",
    "GardeCfg(*_valid)",
    "ValidatorCfg(*_validate)",
];
