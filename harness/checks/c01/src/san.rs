//! Thorough tier: the same oracle in instrumented builds (dev profile overflow
//! checks, nightly ASan, Miri, valgrind memcheck), each run on a sharded subset
//! of the corpus in short processes. A report is a violation
//! `C01:sanitizer:<tool>:<first in-repo or dependency frame>`; a tool that cannot
//! be built or run here is an inconclusive note, never a violation.

use crate::genr;
use crate::oracle::{self, Bad};
use crate::targets::{self, Entry};
use serde_json::{Value, json};
use std::path::{Path, PathBuf};
use std::process::Command;

pub fn harness_dir() -> PathBuf {
    vcore::run::verif_root().join("harness")
}

fn tail(s: &str, n: usize) -> String {
    let l: Vec<&str> = s.lines().collect();
    l[l.len().saturating_sub(n)..].join("\n")
}

fn cargo(args: &[&str], envs: &[(&str, &str)]) -> Result<(), String> {
    let mut c = Command::new("cargo");
    c.args(args).current_dir(harness_dir()).env("CARGO_NET_OFFLINE", "true");
    for (k, v) in envs {
        c.env(k, v);
    }
    match c.output() {
        Err(e) => Err(format!("cannot start cargo {args:?}: {e}")),
        Ok(o) if o.status.success() => Ok(()),
        Ok(o) => Err(format!("cargo {args:?} failed:\n{}", tail(&String::from_utf8_lossy(&o.stderr), 30))),
    }
}

/// `cargo build -p c01` (dev profile) into the workspace's target/debug.
pub fn build_dev() -> Result<PathBuf, String> {
    cargo(&["build", "-p", "c01"], &[])?;
    let p = harness_dir().join("target/debug/c01");
    if p.exists() { Ok(p) } else { Err(format!("{} missing after the build", p.display())) }
}

// ------------------------------------------------------------------ shard side

/// Deliberate use-after-free in the harness itself: shows that the tool under
/// which this binary runs really reports errors here.
#[inline(never)]
fn selftest_uaf() -> u8 {
    let v = vec![7u8; 64];
    let p = v.as_ptr();
    drop(std::hint::black_box(v));
    unsafe { std::ptr::read_volatile(std::hint::black_box(p).add(3)) }
}

fn read_inputs(path: Option<&String>, shard: usize, n: usize, with_tokens: bool) -> Vec<Vec<u8>> {
    let mut v: Vec<Vec<u8>> = Vec::new();
    if with_tokens {
        let space = genr::token_space(2);
        let mut i = shard;
        while i < space {
            v.push(genr::token_string(i).into_bytes());
            i += n.max(1) * 5; // a fifth of the <= 2-token strings, spread over the shards
        }
        for (k, d) in genr::BUILTIN.iter().enumerate() {
            if k % n.max(1) == shard % n.max(1) {
                v.push(d.as_bytes().to_vec());
            }
        }
    }
    if let Some(p) = path
        && let Ok(txt) = std::fs::read_to_string(p)
    {
        for (k, line) in txt.lines().enumerate() {
            if k % n.max(1) == shard {
                v.push(genr::unhex(line.trim()));
            }
        }
    }
    v
}

/// `c01 san-shard <i> <n> [file]` / `c01 miri-shard <i> <n> [file]` /
/// `c01 san-shard selftest`: run the in-process oracle over one shard, single
/// threaded, print one JSON line. Returns normally so that leak checkers run.
pub fn shard_main(args: &[String]) -> ! {
    let miri_mode = args[0] == "miri-shard";
    if args.get(1).map(|s| s.as_str()) == Some("selftest") {
        let x = selftest_uaf();
        println!("{{\"selftest_read\":{x}}}");
        std::process::exit(0);
    }
    let shard: usize = args.get(1).and_then(|s| s.parse().ok()).unwrap_or(0);
    let n: usize = args.get(2).and_then(|s| s.parse().ok()).unwrap_or(1);
    let file = args.get(3).cloned().filter(|f| f != "-");
    // optional wall-clock budget: the shard stops taking new inputs after it (a partial shard is
    // still a clean shard over the inputs it did run; the count is in the result)
    let budget_s: u64 = args.get(4).and_then(|s| s.parse().ok()).unwrap_or(u64::MAX);
    let work = move || -> Value {
        let t0 = std::time::Instant::now();
        let inputs = read_inputs(file.as_ref(), shard, n, true);
        let all = targets::all();
        let mut calls = 0u64;
        let mut done = 0usize;
        let mut spins = 0u64;
        let mut panics: Vec<Value> = Vec::new();
        for (i, d) in inputs.iter().enumerate() {
            if t0.elapsed().as_secs() >= budget_s {
                break;
            }
            done += 1;
            let is_utf8 = std::str::from_utf8(d).is_ok();
            // Miri: two combinations per input; other tools: every entry point x two (target, option) pairs
            let mut combos: Vec<(Entry, usize, usize)> = Vec::new();
            let h = vcore::rng::fnv(d) as usize;
            if miri_mode {
                for k in 0..2 {
                    combos.push((Entry::ALL[(h + i + k * 5) % 9], (h / 9 + i * 7 + k * 11) % all.len(), (h / 400 + i + k) % targets::N_OPTVEC));
                }
            } else {
                for (ei, e) in Entry::ALL.iter().enumerate() {
                    for k in 0..2 {
                        combos.push((*e, (h / 9 + ei * 5 + k * 11) % all.len(), (h / 400 + ei + k * 3) % targets::N_OPTVEC));
                    }
                }
            }
            for (e, ti, opt) in combos {
                if !is_utf8 && e.needs_str() {
                    continue;
                }
                let t = &all[ti];
                let out = oracle::exercise(t, e, opt, d);
                if !out.applicable {
                    continue;
                }
                calls += 1;
                if let Some(Bad::EofSpin { .. }) = &out.bad {
                    spins += 1;
                }
                if let Some(Bad::Panic(p)) = &out.bad
                    && panics.len() < 20
                {
                    panics.push(json!({"msg": p, "target": t.name(), "entry": e.name(), "opt": opt, "hex": genr::hex(d)}));
                }
                if let Some(Bad::IterOverrun) = &out.bad
                    && panics.len() < 20
                {
                    panics.push(json!({"msg": "iterator overrun", "target": t.name(), "entry": e.name(), "opt": opt, "hex": genr::hex(d)}));
                }
            }
        }
        let kinds: Vec<String> = oracle::KINDS.lock().unwrap().iter().cloned().collect();
        json!({
            "inputs": done, "inputs_planned": inputs.len(), "calls": calls, "suspected_hangs": spins,
            "errors_rendered": oracle::STATS.errors_rendered.load(std::sync::atomic::Ordering::Relaxed),
            "kinds": kinds, "panics": panics,
        })
    };
    #[cfg(miri)]
    let v = work();
    #[cfg(not(miri))]
    let v = std::thread::Builder::new().stack_size(1 << 30).spawn(work).expect("spawn").join().unwrap_or_else(|_| json!({"harness_panic": true}));
    println!("SHARD-RESULT {v}");
    if miri_mode {
        // leave through `main` returning would be nicer for the leak check, but `main` is `-> !` shaped
        // here; Miri also reports leaks at `exit` of the main thread.
        std::process::exit(0);
    }
    std::process::exit(0);
}

// ------------------------------------------------------------------ parent side

const DEP_CRATES: [&str; 16] = [
    "serde_saphyr",
    "saphyr_parser",
    "saphyr-parser",
    "smallvec",
    "ahash",
    "regex_automata",
    "regex-automata",
    "memchr",
    "encoding_rs",
    "annotate_snippets",
    "annotate-snippets",
    "zmij",
    "arraydeque",
    "hashlink",
    "nohash",
    "serde_core",
];

/// First stack frame of a sanitizer report that lies in serde-saphyr or one of
/// the dependencies it drives (not std, not the harness).
pub fn first_dep_frame(report: &str) -> String {
    for line in report.lines() {
        let l = line.trim();
        let is_frame = l.starts_with('#') || l.starts_with("at 0x") || l.starts_with("by 0x") || l.contains("inside `") || l.starts_with("-->") || l.contains("==    at") || l.contains("==    by");
        if !is_frame {
            continue;
        }
        if l.contains("c01::") || l.contains("vcore::") || l.contains("checks/c01") || l.contains("harness/vcore") {
            continue;
        }
        if l.contains("/repo/src/") {
            // file:line of the in-repo frame
            if let Some(p) = l.find("/repo/src/") {
                let rest: String = l[p + 6..].chars().take_while(|c| !c.is_whitespace() && *c != ')').collect();
                let mut parts = rest.split(':');
                let f = parts.next().unwrap_or("");
                let ln = parts.next().unwrap_or("");
                return format!("{f}:{ln}");
            }
        }
        for c in DEP_CRATES {
            if l.contains(&format!("{c}::")) || l.contains(&format!("/{c}-")) {
                // symbol name without hash, or registry path
                if let Some(p) = l.find(&format!("{c}::")) {
                    let sym: String = l[p..].chars().take_while(|ch| !ch.is_whitespace() && *ch != '(' && *ch != '`').collect();
                    let sym = sym.split("::h").next().unwrap_or(&sym).to_string();
                    return sym.chars().take(120).collect();
                }
                if let Some(p) = l.find(&format!("/{c}-")) {
                    let rest: String = l[p + 1..].chars().take_while(|ch| !ch.is_whitespace() && *ch != ')').collect();
                    let mut parts = rest.rsplitn(2, ':');
                    let _col = parts.next();
                    return parts.next().unwrap_or(&rest).chars().take(120).collect();
                }
            }
        }
    }
    "unattributed".into()
}

struct ShardOut {
    status_ok: bool,
    stdout: String,
    stderr: String,
    result: Option<Value>,
    timed_out: bool,
}

fn run_shard(mut cmd: Command, wall_s: u64) -> std::io::Result<ShardOut> {
    use std::io::Read;
    use std::process::Stdio;
    cmd.stdin(Stdio::null()).stdout(Stdio::piped()).stderr(Stdio::piped());
    let mut ch = cmd.spawn()?;
    let mut so = ch.stdout.take().unwrap();
    let mut se = ch.stderr.take().unwrap();
    let h1 = std::thread::spawn(move || {
        let mut s = Vec::new();
        let _ = so.read_to_end(&mut s);
        s
    });
    let h2 = std::thread::spawn(move || {
        let mut s = Vec::new();
        let _ = se.read_to_end(&mut s);
        s
    });
    let t0 = std::time::Instant::now();
    let mut timed_out = false;
    let status = loop {
        if let Some(st) = ch.try_wait()? {
            break Some(st);
        }
        if t0.elapsed().as_secs() > wall_s {
            timed_out = true;
            let _ = ch.kill();
            let _ = ch.wait();
            break None;
        }
        std::thread::sleep(std::time::Duration::from_millis(50));
    };
    let stdout = String::from_utf8_lossy(&h1.join().unwrap_or_default()).into_owned();
    let stderr = String::from_utf8_lossy(&h2.join().unwrap_or_default()).into_owned();
    let result = stdout.lines().find_map(|l| l.strip_prefix("SHARD-RESULT ")).and_then(|j| serde_json::from_str(j).ok());
    Ok(ShardOut { status_ok: status.map(|s| s.success()).unwrap_or(false), stdout, stderr, result, timed_out })
}

fn write_inputs(path: &Path, inputs: &[Vec<u8>]) -> std::io::Result<()> {
    let mut s = String::new();
    for d in inputs {
        s.push_str(&genr::hex(d));
        s.push('\n');
    }
    if let Some(p) = path.parent() {
        std::fs::create_dir_all(p)?;
    }
    std::fs::write(path, s)
}

/// Corpus subset for the instrumented runs: short documents and one mutant of each.
fn shard_inputs(seed: u64, corpus: &[Vec<u8>], max_len: usize, count: usize) -> Vec<Vec<u8>> {
    let mut rng = vcore::rng::Rng::stream(seed, 0x5A17);
    let short: Vec<&Vec<u8>> = corpus.iter().filter(|d| d.len() <= max_len).collect();
    let mut out = Vec::new();
    if short.is_empty() {
        return out;
    }
    while out.len() < count {
        let d = *rng.pick(&short);
        if out.len() % 2 == 0 {
            out.push(d.clone());
        } else {
            let o = *rng.pick(&short);
            let k = rng.below(genr::MUTATIONS.len() - 1); // not the long token runs
            out.push(genr::mutate(&mut rng, k, d, o, max_len * 2));
        }
    }
    out
}

/// What a shard's output means for one tool.
enum ToolVerdict {
    Clean(Value),
    Report(String),
    Broken(String),
}

fn interpret(tool: &str, o: &ShardOut) -> ToolVerdict {
    let all = format!("{}\n{}", o.stderr, o.stdout);
    let report = match tool {
        "asan" => all.contains("ERROR: AddressSanitizer") || all.contains("ERROR: LeakSanitizer") || all.contains("SUMMARY: AddressSanitizer"),
        "miri" => all.contains("Undefined Behavior") || all.contains("error: memory leaked") || all.contains("error: unsupported operation") && false,
        "valgrind" => all.contains("Invalid read") || all.contains("Invalid write") || all.contains("uninitialised value") || all.contains("Invalid free") || all.contains("Mismatched free"),
        _ => false,
    };
    if report {
        return ToolVerdict::Report(all);
    }
    if o.timed_out {
        return ToolVerdict::Broken("shard hit its wall-clock limit".into());
    }
    match (&o.result, o.status_ok) {
        (Some(v), true) => ToolVerdict::Clean(v.clone()),
        _ => ToolVerdict::Broken(format!("shard ended without a result: {}", tail(&o.stderr, 6))),
    }
}

fn record_shard(run: &vcore::run::Run, tool: &str, shard: usize, o: &ShardOut, inputs_file: &Path) {
    match interpret(tool, o) {
        ToolVerdict::Clean(v) => {
            run.count(&format!("sanitizer/{tool}/shards_clean"), 1);
            run.count(&format!("sanitizer/{tool}/inputs"), v["inputs"].as_u64().unwrap_or(0));
            run.count(&format!("sanitizer/{tool}/inputs_planned"), v["inputs_planned"].as_u64().unwrap_or(0));
            run.count(&format!("sanitizer/{tool}/suspected_hangs(reader fuel exhausted; verdict taken in the plain build)"), v["suspected_hangs"].as_u64().unwrap_or(0));
            run.count(&format!("sanitizer/{tool}/calls"), v["calls"].as_u64().unwrap_or(0));
            run.count(&format!("sanitizer/{tool}/errors_rendered"), v["errors_rendered"].as_u64().unwrap_or(0));
            run.evals(v["calls"].as_u64().unwrap_or(0));
            if let Some(ps) = v["panics"].as_array() {
                for p in ps {
                    let msg = p["msg"].as_str().unwrap_or("");
                    let site = crate::panic_site(msg);
                    // a panic under an instrumented build is the same event as in the plain build,
                    // except for the dev profile whose overflow checks add panics of their own
                    let sig = if tool == "dev" { format!("C01:panic:dev:{site}") } else { format!("C01:panic:{site}") };
                    let case = json!({
                        "mode": "inproc", "profile": if tool == "dev" { "dev" } else { "release" }, "target": p["target"], "entry": p["entry"], "opt": p["opt"],
                        "input": {"hex": p["hex"]}, "origin": format!("{tool} shard {shard}"),
                    });
                    run.violation(&sig, case, format!("panic under the {tool} build: {msg}"));
                }
            }
        }
        ToolVerdict::Report(text) => {
            let frame = first_dep_frame(&text);
            let head: String = text.lines().filter(|l| l.contains("ERROR") || l.contains("error:") || l.contains("Invalid") || l.contains("SUMMARY")).take(3).collect::<Vec<_>>().join(" | ");
            run.violation(
                &format!("C01:sanitizer:{tool}:{frame}"),
                json!({"mode": "sanitizer", "tool": tool, "shard": shard, "inputs_file": inputs_file.display().to_string(), "target": "Val", "entry": "from_str", "opt": 0, "input": {"hex": ""}}),
                format!("{tool} report: {head}\n{}", text.lines().take(40).collect::<Vec<_>>().join("\n")),
            );
        }
        ToolVerdict::Broken(why) => {
            run.inconclusive(&format!("sanitizer {tool}: shard did not complete"));
            run.note(format!("sanitizer {tool} shard {shard}: {why}"));
        }
    }
}

fn selftest(tool: &str, mut cmd: Command) -> Result<(), String> {
    match run_shard_quiet(&mut cmd) {
        Err(e) => Err(format!("{tool} self-test could not start: {e}")),
        Ok(o) => match interpret(tool, &o) {
            ToolVerdict::Report(_) => Ok(()),
            ToolVerdict::Clean(_) | ToolVerdict::Broken(_) => {
                Err(format!("{tool} self-test: a deliberate use-after-free in the harness was NOT reported ({})", tail(&o.stderr, 4)))
            }
        },
    }
}

fn run_shard_quiet(cmd: &mut Command) -> std::io::Result<ShardOut> {
    let c = std::mem::replace(cmd, Command::new("true"));
    run_shard(c, 900)
}

pub fn run_sanitizers(run: &vcore::run::Run, corpus: &[Vec<u8>], dev_exe: &Path, tools: &mut Vec<String>) {
    let hd = harness_dir();
    let threads = vcore::run::threads();
    std::thread::scope(|sc| {
        // ---- dev profile: overflow checks + debug assertions as an arithmetic sanitizer
        let h_dev = sc.spawn(|| {
            let inputs = shard_inputs(run.seed, corpus, 4096, 24_000);
            let f = hd.join("target/c01-dev-inputs.txt");
            if let Err(e) = write_inputs(&f, &inputs) {
                run.inconclusive("sanitizer dev: cannot write the shard input file");
                run.note(format!("dev inputs: {e}"));
                return;
            }
            let n = 12;
            vcore::run::par_range_chunk(n, 1, |i| {
                let mut c = Command::new(dev_exe);
                c.args(["san-shard", &i.to_string(), &n.to_string(), f.to_str().unwrap(), "300"]);
                match run_shard(c, 1200) {
                    Ok(o) => record_shard(run, "dev", i, &o, &f),
                    Err(e) => run.note(format!("dev shard {i}: {e}")),
                }
            });
        });

        // ---- ASan (nightly)
        let h_asan = sc.spawn(|| -> Option<String> {
            let flags = "--cfg serde_saphyr_verif -Zsanitizer=address -Cforce-frame-pointers=yes";
            if let Err(e) = cargo(
                &["+nightly", "build", "--release", "-p", "c01", "--target", "x86_64-unknown-linux-gnu", "--target-dir", "target-asan"],
                &[("RUSTFLAGS", flags)],
            ) {
                run.inconclusive("sanitizer asan: build failed");
                run.note(format!("asan build: {e}"));
                return None;
            }
            let exe = hd.join("target-asan/x86_64-unknown-linux-gnu/release/c01");
            let asan_opts = "halt_on_error=1:detect_leaks=1:abort_on_error=0:exitcode=97";
            let mut st = Command::new(&exe);
            st.args(["san-shard", "selftest"]).env("ASAN_OPTIONS", asan_opts);
            if let Err(e) = selftest("asan", st) {
                run.inconclusive("sanitizer asan: self-test failed");
                run.note(e);
                return None;
            }
            let inputs = shard_inputs(run.seed.wrapping_add(1), corpus, 4096, 32_000);
            let f = hd.join("target-asan/c01-asan-inputs.txt");
            if write_inputs(&f, &inputs).is_err() {
                run.inconclusive("sanitizer asan: cannot write the shard input file");
                return None;
            }
            let n = 16;
            vcore::run::par_range_chunk(n, 1, |i| {
                let mut c = Command::new(&exe);
                c.args(["san-shard", &i.to_string(), &n.to_string(), f.to_str().unwrap(), "300"]).env("ASAN_OPTIONS", asan_opts);
                match run_shard(c, 1200) {
                    Ok(o) => record_shard(run, "asan", i, &o, &f),
                    Err(e) => run.note(format!("asan shard {i}: {e}")),
                }
            });
            Some("rustc nightly -Zsanitizer=address (halt_on_error=1, detect_leaks=1), self-test passed".into())
        });

        // ---- valgrind memcheck on the release binary, one shard
        let h_vg = sc.spawn(|| -> Option<String> {
            let exe = std::env::current_exe().ok()?;
            let vg = |args: &[&str]| {
                let mut c = Command::new("valgrind");
                c.args(["--tool=memcheck", "--error-exitcode=98", "--leak-check=no", "--quiet", "--main-stacksize=67108864"]);
                c.arg(&exe).args(args);
                c
            };
            if let Err(e) = selftest("valgrind", vg(&["san-shard", "selftest"])) {
                run.inconclusive("sanitizer valgrind: self-test failed");
                run.note(e);
                return None;
            }
            let inputs = shard_inputs(run.seed.wrapping_add(2), corpus, 1024, 200);
            let f = hd.join("target/c01-valgrind-inputs.txt");
            if write_inputs(&f, &inputs).is_err() {
                return None;
            }
            match run_shard(vg(&["san-shard", "0", "4", f.to_str().unwrap(), "300"]), 1500) {
                Ok(o) => record_shard(run, "valgrind", 0, &o, &f),
                Err(e) => run.note(format!("valgrind shard: {e}")),
            }
            Some("valgrind memcheck on the release binary, self-test passed".into())
        });

        // ---- Miri
        let h_miri = sc.spawn(|| -> Option<String> {
            let miri_env = [("MIRIFLAGS", "-Zmiri-disable-isolation")];
            let mk = |args: &[&str]| {
                let mut c = Command::new("cargo");
                c.current_dir(&hd).env("CARGO_NET_OFFLINE", "true");
                for (k, v) in miri_env {
                    c.env(k, v);
                }
                c.args(["+nightly", "miri", "run", "-q", "-p", "c01", "--target-dir", "target-miri", "--"]).args(args);
                c
            };
            // first process also builds; its verdict is the self-test
            if let Err(e) = selftest("miri", mk(&["miri-shard", "selftest"])) {
                run.inconclusive("sanitizer miri: build or self-test failed");
                run.note(e);
                return None;
            }
            let n = threads.min(16).max(1);
            let inputs = shard_inputs(run.seed.wrapping_add(3), corpus, 160, 150 * n);
            let f = hd.join("target-miri/c01-miri-inputs.txt");
            if write_inputs(&f, &inputs).is_err() {
                return None;
            }
            vcore::run::par_range_chunk(n, 1, |i| {
                let c = mk(&["miri-shard", &i.to_string(), &n.to_string(), f.to_str().unwrap(), "300"]);
                match run_shard(c, 1200) {
                    Ok(o) => record_shard(run, "miri", i, &o, &f),
                    Err(e) => run.note(format!("miri shard {i}: {e}")),
                }
            });
            Some("cargo +nightly miri run (-Zmiri-disable-isolation), self-test passed".into())
        });

        let _ = h_dev.join();
        tools.push("dev profile (overflow checks, debug assertions)".into());
        for h in [h_asan, h_vg, h_miri] {
            if let Ok(Some(t)) = h.join() {
                tools.push(t);
            }
        }
    });
    let _ = Entry::ALL;
}
