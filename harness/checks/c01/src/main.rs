//! C01 — deserialization and error rendering are total: no panic, abort or hang.
//!
//! Process-level oracle. Every execution is (deserialize through one entry
//! point -> if Err: render the error in every public way) under `catch_unwind`
//! with the thread's CPU time measured; stack / abort verdicts are taken in
//! child processes with an 8 MiB main-thread stack, in the release profile and
//! (thorough) in the dev profile; thorough also runs the same oracle under
//! ASan, Miri, valgrind and the dev profile's overflow checks.

mod child;
mod genr;
mod oracle;
mod san;
mod targets;

use child::ChildClass;
use genr::Patho;
use oracle::{Bad, CPU_BOUND_S, CaseOut, SMALL_INPUT, STATS};
use serde_json::{Value, json};
use std::path::{Path, PathBuf};
use std::sync::Mutex;
use std::sync::atomic::{AtomicBool, AtomicU64, Ordering};
use targets::{CROSS_TARGETS, Entry, Tgt};

use vcore::rng::{Rng, fnv_parts};
use vcore::run::{Finish, Run, Tier, par_range, par_range_chunk};

static FINISHING: AtomicBool = AtomicBool::new(false);

/// `file:line` of a panic, with machine-specific path prefixes removed
/// (`…/registry/src/<hash>/crate-x.y.z/src/f.rs:1` -> `crate-x.y.z/src/f.rs:1`, `/repo/src/de.rs:1` -> `src/de.rs:1`).
pub fn panic_site(desc: &str) -> String {
    let s = vcore::obs::panic_site(desc);
    if let Some(p) = s.find("/registry/src/") {
        let rest = &s[p + "/registry/src/".len()..];
        if let Some(q) = rest.find('/') {
            return rest[q + 1..].to_string();
        }
    }
    if let Some(p) = s.find("/repo/src/") {
        return s[p + "/repo/".len()..].to_string();
    }
    if s.starts_with("/rustc/")
        && let Some(p) = s.find("/library/")
    {
        return s[p + 1..].to_string();
    }
    s
}

/// Progress line on stderr (and a note in the evidence).
fn progress(run: &Run, what: &str) {
    let cpu = |who| {
        let mut ru: libc::rusage = unsafe { std::mem::zeroed() };
        unsafe { libc::getrusage(who, &mut ru) };
        ru.ru_utime.tv_sec as f64 + ru.ru_stime.tv_sec as f64 + (ru.ru_utime.tv_usec + ru.ru_stime.tv_usec) as f64 / 1e6
    };
    let (own, kids) = (cpu(libc::RUSAGE_SELF), cpu(libc::RUSAGE_CHILDREN));
    eprintln!("c01: [{:7.1}s wall, {own:7.0}s cpu + {kids:5.0}s in children] {what}", run.elapsed_s());
    run.note(format!("{what} at {:.1}s wall, {own:.0}s process CPU + {kids:.0}s CPU in waited-for children", run.elapsed_s()));
}

/// `C01_PARTS=1,3` restricts a run to some parts (debugging aid; the evidence then says so).
fn part_on(n: u32) -> bool {
    match std::env::var("C01_PARTS") {
        Ok(v) if !v.trim().is_empty() => v.split(',').any(|x| x.trim() == n.to_string()),
        _ => true,
    }
}

/// `Run::finish` consumes the run; the stall monitor may have to finish from
/// another thread while workers still hold `&Run`, so the run lives in a leaked
/// box and is read out exactly once (the process exits inside `finish`).
fn finish(run: &'static Run, f: Finish) -> ! {
    if FINISHING.swap(true, Ordering::SeqCst) {
        loop {
            std::thread::park();
        }
    }
    let r: Run = unsafe { std::ptr::read(run) };
    r.finish(f)
}

fn text_preview(b: &[u8]) -> String {
    String::from_utf8_lossy(&b[..b.len().min(600)]).into_owned()
}

/// JSON description of an input that lets `--replay` rebuild it exactly.
fn input_json(input: &[u8], recipe: Option<&Patho>) -> Value {
    match recipe {
        Some(p) if input.len() > 128 * 1024 || p.family == "alias-nest" => {
            json!({"recipe": {"family": p.family, "shape": p.shape, "param": p.param}, "len": input.len(), "preview": text_preview(input)})
        }
        _ => json!({"hex": genr::hex(input), "len": input.len(), "preview": text_preview(input)}),
    }
}

fn rebuild_input(v: &Value) -> Option<Vec<u8>> {
    if let Some(h) = v.get("hex").and_then(|h| h.as_str()) {
        return Some(genr::unhex(h));
    }
    let r = v.get("recipe")?;
    let shape = r.get("shape")?.as_str()?;
    let param = r.get("param")?.as_u64()? as usize;
    Some(match r.get("family")?.as_str()? {
        "block-nest" => genr::block_nest(shape, param),
        "flow-nest" => genr::flow_nest(shape, param),
        "alias-nest" => genr::alias_nest(shape, param),
        "wide" => genr::wide(shape, param),
        "docs" => genr::docs(param, shape),
        "anchors" => genr::anchors(param, shape),
        "scalar" => genr::big_scalar(shape, param),
        "robotics-expr" => genr::robotics_expr(shape, param),
        _ => return None,
    })
}

fn case_json(mode: &str, profile: &str, t: &str, entry: Entry, opt: usize, input: &[u8], recipe: Option<&Patho>, origin: &str) -> Value {
    json!({
        "mode": mode, "profile": profile, "target": t, "entry": entry.name(), "opt": opt,
        "opt_desc": targets::opt_desc(opt),
        "input": input_json(input, recipe), "origin": origin,
    })
}

static REPORTED: Mutex<std::collections::BTreeMap<String, u64>> = Mutex::new(std::collections::BTreeMap::new());
const MAX_REPORTS_PER_SIGNATURE: u64 = 5;

/// `Run::violation` keeps every distinct case in a set it scans linearly; a
/// defect that shows on tens of thousands of inputs must not turn that into a
/// quadratic run. The first few cases per signature are reported, the rest counted.
fn report(run: &Run, sig: &str, case: Value, detail: impl Into<String>) {
    let n = {
        let mut g = REPORTED.lock().unwrap();
        let e = g.entry(sig.to_string()).or_insert(0);
        *e += 1;
        *e
    };
    if n <= MAX_REPORTS_PER_SIGNATURE {
        run.violation(sig, case, detail);
    } else {
        run.count(&format!("further_cases_counted_not_reported/{sig}"), 1);
    }
}

/// Turn what the in-process oracle saw into a verdict.
fn judge(run: &Run, out: &CaseOut, t: &str, entry: Entry, opt: usize, input: &[u8], recipe: Option<&Patho>, origin: &str) {
    let Some(bad) = &out.bad else { return };
    let case = case_json("inproc", "release", t, entry, opt, input, recipe, origin);
    match bad {
        Bad::Panic(p) => report(run, &format!("C01:panic:{}", panic_site(p)), case, format!("panic instead of an error value: {p}")),
        Bad::IterOverrun => report(run, 
            "C01:iterator-does-not-end",
            case,
            format!("drained `read` iterator yielded >= {} items for {} input bytes", targets::iter_item_bound(input.len()), input.len()),
        ),
        Bad::Cpu(s) => report(run, 
            "C01:cpu-bound",
            case,
            format!("call on a {}-byte input used {s:.1} s CPU (bound {CPU_BOUND_S} s for inputs <= {SMALL_INPUT} bytes)", input.len()),
        ),
        Bad::EofSpin { msg, twin } => match twin {
            None => judge_spin(run, case, msg, t, entry, opt, input),
            Some(tw) => {
                run.count("bom_inputs_not_executed_in_process(their BOM-less twin span at EOF; the twin is the reported case)", 1);
                let case = case_json("inproc", "release", t, entry, opt, tw, None, &format!("BOM-less twin of: {origin}"));
                judge_spin(run, case, msg, t, entry, opt, tw)
            }
        },
    }
}

// ------------------------------------------------------------------ suspected hangs at end of input

/// Signature of the class "a reader entry point does not return when the
/// character stream ends inside a directive line".
const DIRECTIVE_SIG: &str = "C01:hang:reader:directive-at-eof";

/// Start-up probe for that class: one representative per reader entry point
/// (plus a few variants through one of them) in a child with RLIMIT_CPU and
/// RLIMIT_AS. If a child does not finish normally the class is reported once and
/// its members are skipped in-process (`oracle::GATE_CLOSED`); otherwise the
/// class runs in-process like everything else.
fn directive_gate(run: &Run) {
    let exe = std::env::current_exe().expect("current_exe");
    let mut reps: Vec<(Entry, Vec<u8>)> = Vec::new();
    for e in Entry::ALL {
        if e.is_reader() {
            reps.push((e, b"%".to_vec()));
        }
    }
    for v in [&b"%YAML"[..], b"a: b\n%x", b"--- a\n...\n%TAG", b"\xEF\xBB\xBF%a", b"%FOO bar", b"\xFF\xFE%\0a\0"] {
        reps.push((Entry::ReaderC7, v.to_vec()));
    }
    let closed = AtomicBool::new(false);
    par_range_chunk(reps.len(), 1, |i| {
        let (e, input) = &reps[i];
        let cpu = CPU_BOUND_S as u64 + 1;
        match child::run_case_limits(&exe, *e, "Val", 0, input, cpu, 600, true, Some(1 << 30)) {
            Err(err) => run.inconclusive(&format!("directive gate: child spawn failed: {err}")),
            Ok((o, c)) => {
                run.eval();
                run.count("directive_gate_children", 1);
                match c {
                    ChildClass::Returned(v) => {
                        if let Some(p) = v.get("panic").and_then(|p| p.as_str()) {
                            report(run, &format!("C01:panic:{}", panic_site(p)), case_json("child", "release", "Val", *e, 0, input, None, "directive-gate"), p.to_string());
                        }
                        run.nontrivial(fnv_parts(&[b"gate", input, e.name().as_bytes()]));
                    }
                    ChildClass::Inconclusive(w) if o.timed_out => run.inconclusive(&format!("directive gate: {w}")),
                    _ => {
                        // killed by the CPU limit, allocation failure under the memory limit, or any other abnormal end
                        closed.store(true, Ordering::SeqCst);
                        report(
                            run,
                            DIRECTIVE_SIG,
                            case_json("child", "release", "Val", *e, 0, input, None, "directive-gate"),
                            format!(
                                "reader entry point did not return on a directive line that runs into end of input: child (RLIMIT_CPU {cpu} s, RLIMIT_AS 1 GiB) ended as {c:?} signal {:?} after {:.1} s CPU, maxrss {} KiB; {}",
                                o.signal.map(child::signal_name),
                                o.user_s + o.sys_s,
                                o.max_rss_kb,
                                child::stderr_head(&o)
                            ),
                        );
                    }
                }
            }
        }
    });
    if closed.load(Ordering::SeqCst) {
        oracle::GATE_CLOSED.store(true, Ordering::SeqCst);
        run.note("directive gate CLOSED: members of the class (character stream ends inside a line starting with '%') are skipped for reader entry points in-process and counted");
    } else {
        run.note("directive gate open: the class 'directive line running into end of input' returns normally in a child for every reader entry point; its members run in-process");
    }
}

enum Confirm {
    Pending(Vec<(Value, String)>),
    Confirmed(String),
    NotConfirmed(String),
}

static SPIN: Mutex<std::collections::BTreeMap<&'static str, Confirm>> = Mutex::new(std::collections::BTreeMap::new());

/// A reader-based call kept polling its reader at EOF until the reader's fuel
/// ran out (the only way to get the worker thread back). That is a *suspected*
/// hang; the verdict is taken once per class by re-running the first such case
/// in a child process whose reader never gives up, against the CPU bound.
fn judge_spin(run: &Run, case: Value, msg: &str, t: &str, entry: Entry, opt: usize, input: &[u8]) {
    let class = oracle::spin_class(input, opt);
    let sig = if class == "directive-line-at-eof" { DIRECTIVE_SIG.to_string() } else { format!("C01:hang:reader-eof-spin:{class}") };
    run.count(&format!("suspected_hangs(reader fuel exhausted)/{class}"), 1);
    {
        let mut g = SPIN.lock().unwrap();
        match g.get_mut(class) {
            Some(Confirm::Pending(q)) => {
                q.push((case, msg.to_string()));
                return;
            }
            Some(Confirm::Confirmed(d)) => {
                let d = d.clone();
                drop(g);
                report(run, &sig, case, format!("{msg}; class confirmed as a hang: {d}"));
                return;
            }
            Some(Confirm::NotConfirmed(_)) => {
                drop(g);
                run.inconclusive("reader polled past its fuel at EOF, but the class was not confirmed as a hang in a child");
                return;
            }
            None => {
                g.insert(class, Confirm::Pending(Vec::new()));
            }
        }
    }
    // first case of this class: confirm in a child without the fuel limit
    let exe = std::env::current_exe().expect("current_exe");
    let limit = CPU_BOUND_S as u64 + 10;
    let verdict = match child::run_case_x(&exe, entry, t, opt, input, limit, 3600, true) {
        Ok((o, c)) if o.user_s + o.sys_s >= CPU_BOUND_S => Confirm::Confirmed(format!(
            "child re-run of the first case ({} via {}, {} bytes) with an ordinary reader used {:.1} s CPU without returning (bound {CPU_BOUND_S} s) and was stopped by {:?} (maxrss {} KiB); {:?}",
            t,
            entry.name(),
            input.len(),
            o.user_s + o.sys_s,
            o.signal.map(child::signal_name),
            o.max_rss_kb,
            matches!(c, ChildClass::Returned(_))
        )),
        Ok((o, c)) => Confirm::NotConfirmed(format!("child used {:.1}s CPU and ended as {c:?}", o.user_s + o.sys_s)),
        Err(e) => Confirm::NotConfirmed(format!("child could not be started: {e}")),
    };
    let mut g = SPIN.lock().unwrap();
    let queued = match g.insert(class, verdict) {
        Some(Confirm::Pending(q)) => q,
        _ => Vec::new(),
    };
    let v = g.get(class).unwrap();
    let mut all = vec![(case, msg.to_string())];
    all.extend(queued);
    match v {
        Confirm::Confirmed(d) => {
            let d = d.clone();
            drop(g);
            for (c, m) in all {
                report(run, &sig, c, format!("{m}; class confirmed as a hang: {d}"));
            }
        }
        Confirm::NotConfirmed(d) => {
            let d = d.clone();
            drop(g);
            run.note(format!("suspected hang class {class} not confirmed: {d}"));
            for _ in all {
                run.inconclusive("reader polled past its fuel at EOF, but the class was not confirmed as a hang in a child");
            }
        }
        Confirm::Pending(_) => {}
    }
}

/// Verdict for a child-process probe.
fn judge_child(
    run: &Run,
    profile: &str,
    family: &str,
    o: &vcore::obs::ChildOutcome,
    c: &ChildClass,
    t: &str,
    entry: Entry,
    opt: usize,
    input: &[u8],
    recipe: Option<&Patho>,
) {
    let case = || case_json("child", profile, t, entry, opt, input, recipe, family);
    let det = |what: &str| {
        format!(
            "{what}; child ended with signal {:?} exit {:?}, user {:.2}s sys {:.2}s maxrss {} KiB; stderr: {}",
            o.signal.map(child::signal_name),
            o.exit_code,
            o.user_s,
            o.sys_s,
            o.max_rss_kb,
            child::stderr_head(o)
        )
    };
    match c {
        ChildClass::Returned(v) => {
            if let Some(p) = v.get("panic").and_then(|p| p.as_str()) {
                let sig = if profile == "release" { format!("C01:panic:{}", panic_site(p)) } else { format!("C01:panic:{profile}:{}", panic_site(p)) };
                report(run, &sig, case(), format!("panic instead of an error value ({profile} profile): {p}"));
            } else if v.get("iter_overrun").and_then(|b| b.as_bool()).unwrap_or(false) {
                report(run, "C01:iterator-does-not-end", case(), "drained iterator exceeded the item bound (child)");
            } else if let Some(m) = v.get("eof_spin").and_then(|p| p.as_str()) {
                judge_spin(run, case(), m, t, entry, opt, input);
            }
        }
        // dev profile: depth composed through aliases is still block nesting below / at max_depth, the
        // class already established for that profile (frames of ~7-19 KiB per level)
        ChildClass::StackOverflow => report(run, 
            &format!("C01:stack-overflow:{profile}:{}", if profile == "dev" && family == "alias-nest" { "block-nest" } else { family }),
            case(),
            det("8 MiB main-thread stack exhausted with the budget of this option vector in force"),
        ),
        ChildClass::AllocAbort => report(run, &format!("C01:alloc-abort:{profile}:{family}"), case(), det("allocation failure aborted the process")),
        ChildClass::Signal(s) => {
            report(run, &format!("C01:child-signal:{}:{profile}:{family}", child::signal_name(*s)), case(), det("process killed by a signal"))
        }
        ChildClass::AbnormalExit(code) => {
            report(run, &format!("C01:child-exit-{code}:{profile}:{family}"), case(), det("process ended abnormally instead of returning"))
        }
        ChildClass::Inconclusive(why) => run.inconclusive(&format!("{why} [{profile}:{family}]")),
    }
}

// ------------------------------------------------------------------ pathological inputs

fn patho_list(tier: Tier) -> Vec<Patho> {
    let mut v = Vec::new();
    let block_depths: Vec<usize> = match tier {
        Tier::Quick => vec![1990, 1999, 2000, 2001, 2010],
        Tier::Thorough => (1990..=2010).collect(),
    };
    for shape in genr::BLOCK_SHAPES {
        // nested explicit keys cost O(depth^3) CPU (16 s at depth 2000 in release): their own ladder
        let ladder: Vec<usize> = match shape {
            "complex-key" => vec![100, 200, 400, 700, 1000, 2001, 2010],
            // far beyond the limit: only the budget stands between such an input and the stack
            "seq-inline" => block_depths.iter().copied().chain([20_000, 100_000]).collect(),
            _ => block_depths.clone(),
        };
        for d in ladder {
            v.push(Patho { family: "block-nest", shape, param: d, bytes: genr::block_nest(shape, d) });
        }
    }
    // nesting depth composed through alias replay: around the limit, and far beyond it
    for shape in genr::ALIAS_SHAPES {
        let params: Vec<usize> = match (shape, tier) {
            ("alias-chain", Tier::Quick) => vec![1, 15],
            ("alias-chain", Tier::Thorough) => vec![1, 2, 4, 8, 15],
            (_, Tier::Quick) => vec![2000, 2001, 2002, 3001],
            (_, Tier::Thorough) => (1996..=2004).chain([1990, 2010, 2500, 3001, 3900]).collect(),
        };
        for d in params {
            v.push(Patho { family: "alias-nest", shape, param: d, bytes: genr::alias_nest(shape, d) });
        }
    }
    for shape in genr::FLOW_SHAPES {
        for d in 250..=260 {
            v.push(Patho { family: "flow-nest", shape, param: d, bytes: genr::flow_nest(shape, d) });
        }
    }
    for (shape, base) in [("wide-seq", 249_999usize), ("wide-map", 124_999), ("wide-flow-seq", 249_999), ("wide-seq-of-maps", 83_333)] {
        for n in [base - 1, base, base + 1] {
            v.push(Patho { family: "wide", shape, param: n, bytes: genr::wide(shape, n) });
        }
    }
    for shape in ["docs-scalar", "docs-end-markers", "docs-map"] {
        for n in [1023usize, 1024, 1025] {
            v.push(Patho { family: "docs", shape, param: n, bytes: genr::docs(n, shape) });
        }
    }
    for shape in ["anchors-only", "anchor-alias-pairs", "same-name-anchors", "one-anchor-many-aliases"] {
        for n in [49_999usize, 50_000, 50_001] {
            v.push(Patho { family: "anchors", shape, param: n, bytes: genr::anchors(n, shape) });
        }
    }
    for shape in ["plain", "double-quoted", "literal-block", "unterminated-quote", "long-line-then-error", "long-key-type-error"] {
        let n = 8 * 1024 * 1024;
        v.push(Patho { family: "scalar", shape, param: n, bytes: genr::big_scalar(shape, n) });
    }
    for shape in ["unary-minus", "parens", "deg-calls", "sum-chain", "digits"] {
        for n in [255usize, 256, 257, 60_000, 1_000_001] {
            v.push(Patho { family: "robotics-expr", shape, param: n, bytes: genr::robotics_expr(shape, n) });
        }
    }
    v
}

/// Inputs whose single call costs seconds of CPU: run on a thin grid only.
fn heavy(p: &Patho) -> bool {
    (p.shape == "complex-key" && p.param > 200 && p.param <= 2000) || p.shape == "anchored-map"
}

/// Inputs whose single call holds hundreds of MiB (every open anchor records every event).
fn heavy_mem(p: &Patho) -> bool {
    p.shape == "anchored-map"
}

/// Counting semaphore: at most `MAX_HEAVY` memory-heavy calls / children at a time.
struct Sem {
    n: Mutex<usize>,
    cv: std::sync::Condvar,
}
const MAX_HEAVY: usize = 3;
static HEAVY: Sem = Sem { n: Mutex::new(0), cv: std::sync::Condvar::new() };
struct Permit;
impl Sem {
    fn acquire(&self) -> Permit {
        let mut g = self.n.lock().unwrap();
        while *g >= MAX_HEAVY {
            g = self.cv.wait(g).unwrap();
        }
        *g += 1;
        Permit
    }
}
impl Drop for Permit {
    fn drop(&mut self) {
        *HEAVY.n.lock().unwrap() -= 1;
        HEAVY.cv.notify_one();
    }
}

fn patho_opts(p: &Patho) -> &'static [usize] {
    match p.family {
        "robotics-expr" => &[4, 0],
        "block-nest" | "flow-nest" => &[0, 3, 1],
        "alias-nest" => &[0, 3, 2],
        _ => &[0, 3],
    }
}

/// Targets that can follow a deep nest or large document all the way down; the
/// others are run too (they stop at the first type mismatch).
const DEEP_TARGETS: [&str; 10] = ["Val", "json", "Ignored", "DeepMap", "DeepSeq", "EnumNest", "RcNest", "MapValVal", "OptVal", "MapStrDeepSeq"];

// ------------------------------------------------------------------ depth composed through alias replay

const ALIAS_DEPTH_SIG: &str = "C01:depth-budget-not-enforced:alias-replay";

/// Oracle for the alias-nest family under a budget (option vectors 0, 2, 3): a
/// value whose total nesting depth — reached through alias replay — is beyond
/// the depth limit must be a Budget error exactly as the literal document of
/// the same depth is, never Ok (an Ok there is what lets nesting grow until the
/// stack is gone). `literal_ok(total)` runs the literal twin the same way;
/// `None` = could not be run. Beyond depth 4000 no twin is needed: the literal
/// limit (2000) is far behind.
fn judge_alias_depth(
    run: &Run,
    mode: &str,
    profile: &str,
    p: &Patho,
    t: &str,
    e: Entry,
    opt: usize,
    oks: usize,
    literal_ok: impl FnOnce(usize) -> Option<bool>,
) {
    if p.family != "alias-nest" || oks == 0 {
        return;
    }
    let total = genr::alias_nest_total(p.shape, p.param);
    if total <= 2000 {
        return;
    }
    let twin = if total <= 4000 { literal_ok(total) } else { Some(false) };
    match twin {
        Some(false) => report(
            run,
            ALIAS_DEPTH_SIG,
            case_json(mode, profile, t, e, opt, &p.bytes, Some(p), "alias-nest"),
            format!(
                "Ok for a value of total nesting depth {total} composed through alias replay ({} {}), while the literal document of the same depth is rejected: the depth limit of the budget is not applied to replayed containers",
                p.shape, p.param
            ),
        ),
        Some(true) => run.count("unspecified/alias-nest-literal-twin-also-ok", 1),
        None => run.inconclusive("alias-nest: literal twin could not be run"),
    }
}

// ------------------------------------------------------------------ child probes

struct Probe {
    patho: usize,
    target: &'static str,
    entry: Entry,
    opt: usize,
}

fn probe_plan(pathos: &[Patho], tier: Tier, profile: &str) -> Vec<Probe> {
    let mut v = Vec::new();
    for (i, p) in pathos.iter().enumerate() {
        let (targets, entries): (&[&'static str], &[Entry]) = match p.family {
            "block-nest" if p.shape == "complex-key" => {
                let keep: &[usize] = if profile == "dev" { &[200, 400, 700] } else { &[200, 1000, 2001] };
                if !keep.contains(&p.param) {
                    continue;
                }
                if heavy(p) { (&["Val"], &[Entry::FromStr]) } else { (&["Val", "Ignored", "MapValVal"], &[Entry::FromStr, Entry::ReadIter]) }
            }
            "block-nest" if p.shape == "anchored-map" => {
                // ~550 MiB per call at depth 2000 (every open anchor records every event): a thin grid
                if ![1999, 2000, 2001].contains(&p.param) {
                    continue;
                }
                (&["Val", "RcNest", "Ignored"], &[Entry::FromStr, Entry::ReaderC7])
            }
            "block-nest" => {
                let keep = match tier {
                    Tier::Quick => [1999, 2000, 2001, 100_000].contains(&p.param),
                    Tier::Thorough => [1990, 1999, 2000, 2001, 2010, 20_000, 100_000].contains(&p.param),
                };
                if !keep {
                    continue;
                }
                (
                    &["Val", "json", "Ignored", "DeepMap", "DeepSeq", "EnumNest", "RcNest", "Mixed"],
                    &[Entry::FromStr, Entry::ReaderC7, Entry::ReadIter, Entry::FromMultiple],
                )
            }
            "alias-nest" => (&["Val", "json", "Ignored", "MapStrDeepSeq"], &[Entry::FromStr, Entry::ReaderC7, Entry::ReadIter]),
            "flow-nest" => {
                if tier == Tier::Quick && ![254, 255, 256, 257].contains(&p.param) {
                    continue;
                }
                (&["Val", "json", "Ignored", "DeepSeq", "DeepMap"], &[Entry::FromStr, Entry::ReaderC7])
            }
            "wide" | "docs" | "anchors" => (&["Val", "json", "Ignored", "VecString"], &[Entry::FromStr, Entry::FromMultiple, Entry::ReadIter]),
            "scalar" => (&["Val", "String", "TupU8Str"], &[Entry::FromStr, Entry::ReaderC7]),
            _ => (&["Val", "f64", "Mixed"], &[Entry::FromStr]),
        };
        // the dev profile is slow: one entry point less for the wide families
        let entries: &[Entry] = if profile == "dev" && matches!(p.family, "wide" | "anchors" | "scalar") { &entries[..1] } else { entries };
        for t in targets {
            for e in entries {
                let opt = if p.family == "robotics-expr" { 4 } else { 0 };
                v.push(Probe { patho: i, target: t, entry: *e, opt });
            }
        }
    }
    v
}

struct DepthStat {
    deepest_returned: std::collections::BTreeMap<String, usize>,
    shallowest_overflow: std::collections::BTreeMap<String, usize>,
}

fn run_probes(run: &Run, exe: &Path, profile: &str, pathos: &[Patho], tier: Tier) {
    let plan = probe_plan(pathos, tier, profile);
    let stat = Mutex::new(DepthStat { deepest_returned: Default::default(), shallowest_overflow: Default::default() });
    let n_ret = AtomicU64::new(0);
    par_range_chunk(plan.len(), 1, |i| {
        let pr = &plan[i];
        let p = &pathos[pr.patho];
        let _permit = if heavy_mem(p) { Some(HEAVY.acquire()) } else { None };
        match child::run_case(exe, pr.entry, pr.target, pr.opt, &p.bytes, 300, 900) {
            Err(e) => run.inconclusive(&format!("child spawn failed: {e}")),
            Ok((o, c)) => {
                run.eval();
                run.count(&format!("child_probes/{profile}/{}", p.family), 1);
                run.max(&format!("child_max_cpu_ms/{profile}/{}:{}", p.family, p.shape), ((o.user_s + o.sys_s) * 1e3) as u64);
                judge_child(run, profile, p.family, &o, &c, pr.target, pr.entry, pr.opt, &p.bytes, Some(p));
                let key = format!("{}:{}", p.family, p.shape);
                let mut st = stat.lock().unwrap();
                match c {
                    ChildClass::Returned(v) => {
                        n_ret.fetch_add(1, Ordering::Relaxed);
                        if let Some(k) = v.get("kind").and_then(|k| k.as_str()) {
                            run.observe(&format!("child_error_kinds/{profile}"), k);
                        }
                        let e = st.deepest_returned.entry(key).or_insert(0);
                        *e = (*e).max(p.param);
                        drop(st);
                        run.nontrivial(fnv_parts(&[b"child", profile.as_bytes(), &p.bytes, pr.target.as_bytes(), pr.entry.name().as_bytes()]));
                        let oks = v.get("oks").and_then(|x| x.as_u64()).unwrap_or(0) as usize;
                        judge_alias_depth(run, "child", profile, p, pr.target, pr.entry, pr.opt, oks, |total| {
                            match child::run_case(exe, pr.entry, pr.target, pr.opt, &genr::alias_nest_literal(total), 300, 900) {
                                Ok((_, ChildClass::Returned(w))) => Some(w.get("oks").and_then(|x| x.as_u64()).unwrap_or(0) > 0),
                                _ => None,
                            }
                        });
                    }
                    ChildClass::StackOverflow => {
                        let e = st.shallowest_overflow.entry(key).or_insert(usize::MAX);
                        *e = (*e).min(p.param);
                    }
                    _ => {}
                }
            }
        }
    });
    run.count(&format!("child_probes_returned/{profile}"), n_ret.load(Ordering::Relaxed));
    let st = stat.lock().unwrap();
    for (k, d) in &st.deepest_returned {
        run.observe(&format!("deepest_param_returned_in_child/{profile}"), &format!("{k}={d}"));
    }
    for (k, d) in &st.shallowest_overflow {
        run.observe(&format!("shallowest_param_overflowing_in_child/{profile}"), &format!("{k}={d}"));
    }
}

/// Bisect, per block shape and deep target, the smallest depth at which the
/// child overflows its 8 MiB stack under the default budget (only called for a
/// profile in which the probes saw an overflow). Evidence only; the verdicts
/// come from `run_probes`.
fn bisect_overflow(run: &Run, exe: &Path, profile: &str) {
    let combos: Vec<(&str, &str)> = vec![
        ("seq-inline", "Val"),
        ("seq-inline", "Ignored"),
        ("seq-inline", "DeepSeq"),
        ("map-lines", "Val"),
        ("map-lines", "json"),
        ("map-lines", "DeepMap"),
        ("anchored-map", "RcNest"),
        ("enum-payload", "EnumNest"),
        ("complex-key", "Val"),
        ("alternating", "Val"),
    ];
    par_range_chunk(combos.len(), 1, |i| {
        let (shape, t) = combos[i];
        let (mut lo, mut hi) = (1usize, 2000usize); // lo returns, hi overflows (checked below)
        let at = |d: usize| -> Option<bool> {
            let b = genr::block_nest(shape, d);
            match child::run_case(exe, Entry::FromStr, t, 0, &b, 300, 900) {
                Ok((_, ChildClass::StackOverflow)) => Some(true),
                Ok((_, ChildClass::Returned(_))) => Some(false),
                _ => None,
            }
        };
        if at(hi) != Some(true) || at(lo) != Some(false) {
            run.observe(&format!("overflow_threshold/{profile}"), &format!("{shape}->{t}: no overflow at depth 2000"));
            return;
        }
        while hi - lo > 1 {
            let mid = (lo + hi) / 2;
            match at(mid) {
                Some(true) => hi = mid,
                Some(false) => lo = mid,
                None => {
                    run.inconclusive("bisect: child neither returned nor overflowed");
                    return;
                }
            }
        }
        run.observe(
            &format!("overflow_threshold/{profile}"),
            &format!("{shape}->{t}: returns at depth {lo}, overflows 8 MiB at depth {hi} (~{} KiB of stack per level)", 8 * 1024 / hi),
        );
    });
}

/// Evidence only: the smallest main-thread stack (bisected to 32 KiB) with which a child returns
/// on 2000 nested block collections, per shape and target, and the margin that leaves at 8 MiB.
fn measure_stack_need(run: &Run, exe: &Path, profile: &str) {
    let combos: Vec<(&str, &str)> = vec![
        ("map-lines", "Ignored"),
        ("map-lines", "Mixed"),
        ("map-lines", "json"),
        ("map-lines", "Val"),
        ("map-lines", "DeepMap"),
        ("seq-inline", "Ignored"),
        ("seq-inline", "json"),
        ("seq-inline", "Val"),
        ("seq-inline", "DeepSeq"),
        ("enum-payload", "EnumNest"),
        ("alternating", "Val"),
    ];
    par_range_chunk(combos.len(), 1, |i| {
        let (shape, t) = combos[i];
        let doc = genr::block_nest(shape, 2000);
        let returns = |stack: u64| -> Option<bool> {
            child::STACK_OVERRIDE.with(|s| s.set(Some(stack)));
            let r = child::run_case(exe, Entry::FromStr, t, 0, &doc, 300, 900);
            child::STACK_OVERRIDE.with(|s| s.set(None));
            match r {
                Ok((_, ChildClass::Returned(_))) => Some(true),
                Ok((_, ChildClass::StackOverflow)) | Ok((_, ChildClass::Signal(_))) => Some(false),
                _ => None,
            }
        };
        let (mut lo, mut hi) = (256u64 << 10, 64u64 << 20);
        if returns(hi) != Some(true) {
            run.observe(&format!("stack_needed_at_depth_2000/{profile}"), &format!("{shape}->{t}: more than 64 MiB"));
            return;
        }
        while hi - lo > 32 << 10 {
            let mid = (lo + hi) / 2;
            match returns(mid) {
                Some(true) => hi = mid,
                Some(false) => lo = mid,
                None => return,
            }
        }
        let margin = 100.0 * (child::STACK_BYTES as f64 - hi as f64) / child::STACK_BYTES as f64;
        run.observe(
            &format!("stack_needed_at_depth_2000/{profile}"),
            &format!("{shape}->{t}: {:.2} MiB ({:.2} KiB per level), margin at 8 MiB {margin:.0}%", hi as f64 / 1048576.0, hi as f64 / 2000.0 / 1024.0),
        );
        if profile == "release" && margin < 5.0 {
            run.note(format!("WARNING (no verdict): release stack margin at depth 2000 for {shape}->{t} is only {margin:.1}%"));
        }
    });
}

// ------------------------------------------------------------------ replay

/// Replay of the alias-nest depth oracle (the literal twin is run in-process on a large stack).
fn alias_replay(run: &Run, case: &Value, t: &str, entry: Entry, opt: usize, oks: usize, input: &[u8]) {
    let r = &case["input"]["recipe"];
    if r["family"].as_str() != Some("alias-nest") {
        return;
    }
    let shape = genr::ALIAS_SHAPES.iter().copied().find(|s| Some(*s) == r["shape"].as_str()).unwrap_or("alias-even");
    let p = Patho { family: "alias-nest", shape, param: r["param"].as_u64().unwrap_or(0) as usize, bytes: input.to_vec() };
    let tname = t.to_string();
    judge_alias_depth(run, "inproc", "release", &p, t, entry, opt, oks, |total| {
        std::thread::Builder::new()
            .stack_size(1 << 30)
            .spawn(move || {
                let tg = targets::by_name(&tname)?;
                let o = oracle::exercise(&tg, entry, opt, &genr::alias_nest_literal(total));
                if o.applicable { Some(o.oks > 0) } else { None }
            })
            .ok()?
            .join()
            .ok()?
    });
}

fn replay(run: &'static Run, rep: &Value) -> ! {
    let case = &rep["case"];
    let input = rebuild_input(&case["input"]).unwrap_or_default();
    let tname = case["target"].as_str().unwrap_or("Val");
    let entry = case["entry"].as_str().and_then(Entry::from_name).unwrap_or(Entry::FromStr);
    let opt = case["opt"].as_u64().unwrap_or(0) as usize;
    let profile = case["profile"].as_str().unwrap_or("release");
    let family = case["origin"].as_str().unwrap_or("replay").to_string();
    let Some(t) = targets::by_name(tname) else {
        eprintln!("harness error: unknown target {tname} in replay file");
        std::process::exit(2);
    };
    run.eval();
    // a case found in the dev profile (child probe or dev shard) is replayed in a child of the dev binary
    let mode = if profile == "dev" { "child" } else { case["mode"].as_str().unwrap_or("inproc") };
    match mode {
        "child" => {
            let exe = match profile {
                "dev" => match san::build_dev() {
                    Ok(p) => p,
                    Err(e) => {
                        eprintln!("harness error: dev build failed: {e}");
                        std::process::exit(2);
                    }
                },
                _ => std::env::current_exe().expect("current_exe"),
            };
            match child::run_case(&exe, entry, t.name(), opt, &input, 300, 900) {
                Ok((o, c)) => {
                    println!("child: {c:?} {}", child::stderr_head(&o));
                    judge_child(run, profile, &family, &o, &c, t.name(), entry, opt, &input, None);
                    if let ChildClass::Returned(v) = &c {
                        alias_replay(run, case, t.name(), entry, opt, v.get("oks").and_then(|x| x.as_u64()).unwrap_or(0) as usize, &input);
                    }
                }
                Err(e) => {
                    eprintln!("harness error: {e}");
                    std::process::exit(2);
                }
            }
        }
        "sanitizer" => {
            eprintln!("replay of a sanitizer report: re-run `./check C01 thorough` (the report is tied to an instrumented build); the in-process oracle is run on the input instead");
            let out = std::thread::Builder::new().stack_size(1 << 30).spawn(move || oracle::exercise(&t, entry, opt, &input)).unwrap().join();
            if let Ok(out) = out {
                judge(run, &out, tname, entry, opt, &[], None, "replay (sanitizer report; input not part of the case)");
            }
        }
        _ => {
            let inp = input.clone();
            let tn = t.name();
            let out = std::thread::Builder::new()
                .stack_size(1 << 30)
                .spawn(move || oracle::exercise(&t, entry, opt, &inp))
                .unwrap()
                .join()
                .expect("worker");
            println!("in-process: oks={} errs={} kind={:?} cpu={:.3}s", out.oks, out.errs, out.first_kind, out.cpu_s);
            judge(run, &out, tn, entry, opt, &input, None, "replay");
            alias_replay(run, case, tn, entry, opt, out.oks, &input);
        }
    }
    finish(run, Finish::new("replay"));
}

// ------------------------------------------------------------------ stall monitor

fn start_monitor(run: &'static Run) {
    std::thread::spawn(move || {
        loop {
            std::thread::sleep(std::time::Duration::from_millis(500));
            for s in oracle::stall::scan() {
                let small = s.full_len <= SMALL_INPUT;
                if !small {
                    eprintln!("c01: stall monitor: a call on a {}-byte input has used {:.0}s CPU without returning (no bound is stated for inputs > 64 KiB): inconclusive", s.full_len, s.cpu_s);
                    run.inconclusive("a call on an input > 64 KiB did not return within 600 s CPU");
                    run.note(format!("stalled big call: target {} entry {} opt {} input {} bytes starting {:?}", s.target, s.entry.name(), s.opt, s.full_len, text_preview(&s.input)));
                    finish(run, Finish::new("run ended by the stall monitor").min_nontrivial(usize::MAX));
                }
                eprintln!(
                    "c01: stall monitor: call has used {:.1}s CPU without returning: target {} entry {} opt {} input {} bytes: {:?}",
                    s.cpu_s,
                    s.target,
                    s.entry.name(),
                    s.opt,
                    s.input.len(),
                    text_preview(&s.input[..s.input.len().min(120)])
                );
                let exe = std::env::current_exe().expect("current_exe");
                let cpu_limit = if small { CPU_BOUND_S as u64 + 10 } else { 900 };
                let res = child::run_case_x(&exe, s.entry, s.target, s.opt, &s.input, cpu_limit, 3600, true);
                let case = case_json("inproc", "release", s.target, s.entry, s.opt, &s.input, None, "stall-monitor");
                let mut confirmed = false;
                match res {
                    Ok((o, _)) if small && o.user_s + o.sys_s >= CPU_BOUND_S => {
                        confirmed = true;
                        report(run, 
                            "C01:cpu-bound",
                            case,
                            format!(
                                "call on a {}-byte input had used {:.1} s CPU in-process without returning; the child re-run used {:.1} s CPU (bound {CPU_BOUND_S} s) and ended with signal {:?}",
                                s.input.len(),
                                s.cpu_s,
                                o.user_s + o.sys_s,
                                o.signal.map(child::signal_name)
                            ),
                        );
                    }
                    Ok((o, c)) => {
                        run.inconclusive("in-process call stalled but the child re-run did not exceed the CPU bound");
                        run.note(format!(
                            "stalled call: target {} entry {} opt {} input {} bytes, in-process CPU {:.1}s; child {:?} cpu {:.1}s",
                            s.target,
                            s.entry.name(),
                            s.opt,
                            s.input.len(),
                            s.cpu_s,
                            c,
                            o.user_s + o.sys_s
                        ));
                    }
                    Err(e) => run.inconclusive(&format!("stalled call; child re-run failed to start: {e}")),
                }
                // the stuck worker will never hand its thread back: end the run here
                let f = Finish::new("run ended by the stall monitor: a call did not return within its CPU limit");
                let f = if confirmed { f } else { f.min_nontrivial(usize::MAX) };
                finish(run, f);
            }
        }
    });
}

// ------------------------------------------------------------------ main

fn main() {
    let args: Vec<String> = std::env::args().collect();
    match args.get(1).map(|s| s.as_str()) {
        Some("child") => child::child_main(&args[2..]),
        Some("miri-shard") | Some("san-shard") => san::shard_main(&args[1..]),
        _ => {}
    }
    let run: &'static Run = Box::leak(Box::new(Run::from_args("C01")));
    if let Some(rep) = run.is_replay() {
        replay(run, rep);
    }
    start_monitor(run);
    directive_gate(run);
    let tier = run.tier;
    let all_targets = targets::all();
    let cross: Vec<&'static Tgt> = CROSS_TARGETS.iter().map(|n| targets::by_name(n).expect("cross target")).collect();
    for e in Entry::ALL {
        run.observe("entry_points", e.name());
    }
    for t in all_targets.iter() {
        run.observe("targets", t.name());
    }
    for (i, d) in targets::OPTVEC_DESC.iter().enumerate() {
        run.observe("option_vectors", &format!("{i}: {d}"));
    }

    // ---- 4 (run first, while this process is still small: every child is a fork of it).
    // Child-process probes, release profile: stack / abort verdicts for the pathological inputs
    let pathos = std::sync::Arc::new(patho_list(tier));
    let exe = std::env::current_exe().expect("current_exe");
    if part_on(4) {
        run_probes(run, &exe, "release", &pathos, tier);
        measure_stack_need(run, &exe, "release");
    }
    progress(run, "part 4 (release child probes) done");

    // ---- 1. exhaustive token strings
    //   full grid: every string of length <= 3 x 12 entry points x option vectors 0..7 x 11 targets;
    //              thorough: also every string of length 4 x 12 entry points x option vectors 0..4 x 11 targets
    //   thin grid: every string of the next length (4 quick / 5 thorough) x a few rotating
    //              (target of all, entry point, option vector incl. bit-encoded ones) combinations
    let n3 = genr::token_space(3);
    let n4 = genr::token_space(4);
    let n5 = genr::token_space(5);
    let full_len = tier.pick(3, 4);
    let n_strings = tier.pick(n3, n4);
    let nt_calls = AtomicU64::new(0);
    // n_opts == N_OPTVEC: the whole grid; n_opts == 4: the DESIGN grid (its four option vectors, its
    // nine targets, its nine entry points)
    let exhaustive_one = |input: &[u8], origin: &str, count_nt: bool, n_opts: usize| {
        let nt = count_nt && oracle::nontrivial_input(input);
        let mut calls = 0u64;
        let whole = n_opts == targets::N_OPTVEC;
        for t in &cross[..if whole { cross.len() } else { 9 }] {
            for e in Entry::ALL {
                if !whole && matches!(e, Entry::Defaults | Entry::FromSliceMultiple | Entry::ReadAbandon) {
                    continue;
                }
                for opt in 0..n_opts {
                    let out = oracle::exercise(t, e, opt, input);
                    if out.applicable {
                        calls += 1;
                        judge(run, &out, t.name(), e, opt, input, None, origin);
                    }
                }
            }
        }
        run.evals(calls);
        if nt {
            run.nontrivial(fnv_parts(&[b"tok", input]));
            nt_calls.fetch_add(calls, Ordering::Relaxed);
        }
    };
    // rotating thin grid: `k` combinations chosen by a hash of the input (deterministic, seed-independent)
    let thin_one = |input: &[u8], origin: &str, k: usize, tag: &[u8]| {
        let h0 = fnv_parts(&[tag, input]);
        let mut calls = 0u64;
        for j in 0..k {
            let h = h0.wrapping_mul(0x9E3779B97F4A7C15).rotate_left(17 * (j as u32 + 1)) ^ (j as u64) * 0xD1342543DE82EF95;
            let t = &all_targets[(h % all_targets.len() as u64) as usize];
            let e = Entry::ALL[((h >> 16) % Entry::ALL.len() as u64) as usize];
            let opt = if (h >> 60) & 3 == 0 {
                targets::OPT_BITS_BASE + ((h >> 32) as usize & ((1 << targets::OPT_BITS) - 1))
            } else {
                ((h >> 24) % targets::N_OPTVEC as u64) as usize
            };
            let out = oracle::exercise(t, e, opt, input);
            if out.applicable {
                calls += 1;
                judge(run, &out, t.name(), e, opt, input, None, origin);
            }
        }
        run.evals(calls);
        calls
    };
    exhaustive_one(b"", "empty", false, targets::N_OPTVEC);
    let limit = std::env::var("C01_LIMIT").ok().and_then(|v| v.parse().ok()).unwrap_or(usize::MAX);
    let n_strings_run = if part_on(1) { n_strings.min(limit) } else { 0 };
    par_range(n_strings_run, |i| {
        let s = genr::token_string(i);
        let n_opts = if i < n3 { targets::N_OPTVEC } else { 4 };
        exhaustive_one(s.as_bytes(), "token-exhaustive", true, n_opts);
        if i % 7919 == 0 {
            run.sample(|| json!({"part": "token-exhaustive", "input": s}));
        }
    });
    run.count("token_strings_exhaustive_full_grid", n_strings as u64);
    // thin grid over the next length
    let (thin_lo, thin_hi, thin_k) = tier.pick((n3, n4, 3usize), (n4, n5, 1usize));
    let thin_n = if part_on(1) { (thin_hi - thin_lo).min(limit) } else { 0 };
    let thin_calls = AtomicU64::new(0);
    par_range(thin_n, |i| {
        let s = genr::token_string(thin_lo + i);
        let c = thin_one(s.as_bytes(), "token-exhaustive-thin", thin_k, b"thin");
        thin_calls.fetch_add(c, Ordering::Relaxed);
        if i % 65_521 == 0 && oracle::nontrivial_input(s.as_bytes()) {
            run.nontrivial(fnv_parts(&[b"tok", s.as_bytes()]));
        }
    });
    run.count("token_strings_exhaustive_thin_grid", (thin_hi - thin_lo) as u64);
    run.count("token_strings_thin_grid_calls", thin_calls.load(Ordering::Relaxed));
    // sampled longer strings
    let n_sampled = if part_on(1) { tier.pick(1_500, 10_000) } else { 0 };
    par_range(n_sampled, |i| {
        let mut rng = Rng::stream(run.seed, i as u64);
        let len = rng.range(full_len + 2, 12);
        let s = genr::random_token_string(&mut rng, len);
        exhaustive_one(s.as_bytes(), "token-sampled", true, 4);
        if i % 1999 == 0 {
            run.sample(|| json!({"part": "token-sampled", "input": s}));
        }
    });
    run.count("token_strings_sampled_longer", n_sampled as u64);

    // ---- 1b. robotics expressions (feature-gated path): every token string over the expression
    // alphabet, as a scalar in float contexts, with angle_conversions on
    let rob_len = tier.pick(4, 5);
    let rob_n = if part_on(1) { genr::robotics_space(rob_len).min(limit) } else { 0 };
    let rob_opts = [4usize, targets::OPT_BITS_BASE + 0b0110_0000, targets::OPT_BITS_BASE + 0b0010_0100 + (1 << 8)];
    par_range(rob_n, |i| {
        let expr = genr::robotics_string(i);
        let mut calls = 0u64;
        for (cx, tn) in [("@", "f64"), ("@", "f32"), ("f: @", "Mixed"), ("- @", "VecF32"), ("@", "Val"), ("k3: @", "Exotic{int widths,char,unit,newtype,tuple struct,array,HashMap}")] {
            let doc = format!("{}\n", cx.replace('@', &expr));
            let t = targets::by_name(tn).expect("robotics target");
            let opt = rob_opts[(i + calls as usize) % rob_opts.len()];
            let e = if (i + calls as usize) % 3 == 0 { Entry::ReaderC7 } else { Entry::FromStr };
            let out = oracle::exercise(t, e, opt, doc.as_bytes());
            if out.applicable {
                calls += 1;
                judge(run, &out, t.name(), e, opt, doc.as_bytes(), None, "robotics-exhaustive");
            }
        }
        run.evals(calls);
        if i % 101 == 0 {
            run.nontrivial(fnv_parts(&[b"rob", expr.as_bytes()]));
        }
        if i % 99_991 == 0 {
            run.sample(|| json!({"part": "robotics-exhaustive", "expr": expr}));
        }
    });
    run.count("robotics_expression_strings_exhaustive", genr::robotics_space(rob_len) as u64);
    progress(run, "part 1 done");

    // ---- 2. mutational corpus
    let (harvested, nfiles) = genr::harvest(Path::new("/repo/tests"), 16 * 1024);
    run.count("corpus/harvested_literals", harvested.len() as u64);
    run.count("corpus/test_files_scanned", nfiles as u64);
    if harvested.len() < 500 {
        run.inconclusive("corpus harvest from /repo/tests found fewer than 500 string literals");
    }
    let mut corpus: Vec<Vec<u8>> = harvested;
    corpus.extend(genr::BUILTIN.iter().map(|s| s.as_bytes().to_vec()));
    let n_harvested_builtin = corpus.len();
    let n_gen = tier.pick(1_500, 10_000);
    corpus.extend(genr::generated_docs(run.seed, n_gen));
    run.count("corpus/generated_docs", n_gen as u64);
    // serializer output of what parses
    {
        let extra: Mutex<Vec<Vec<u8>>> = Mutex::new(Vec::new());
        let take = corpus.len().min(tier.pick(1_500, 6_000));
        par_range(take, |i| {
            let Ok(s) = std::str::from_utf8(&corpus[i]) else { return };
            let r = vcore::obs::catch(|| {
                serde_saphyr::from_str::<serde_json::Value>(s).ok().and_then(|v| serde_saphyr::to_string(&v).ok())
            });
            if let Ok(Some(y)) = r
                && y.len() <= 16 * 1024
            {
                extra.lock().unwrap().push(y.into_bytes());
            }
        });
        let mut extra = extra.into_inner().unwrap();
        extra.sort();
        extra.dedup();
        run.count("corpus/serializer_outputs", extra.len() as u64);
        corpus.extend(extra);
    }
    run.count("corpus/total_documents", corpus.len() as u64);
    let corpus = std::sync::Arc::new(corpus);

    // ---- 5 (thorough; runs beside parts 2-4, in its own processes): dev profile, sanitizers
    let side = if tier == Tier::Thorough && part_on(5) {
        let (corpus, pathos) = (corpus.clone(), pathos.clone());
        Some(std::thread::spawn(move || -> Vec<String> {
            let mut tools = Vec::new();
            match san::build_dev() {
                Err(e) => {
                    eprintln!("harness error: dev-profile build of c01 failed (not a verdict):\n{e}");
                    std::process::exit(2);
                }
                Ok(dev_exe) => {
                    run_probes(run, &dev_exe, "dev", &pathos, tier);
                    bisect_overflow(run, &dev_exe, "dev");
                    measure_stack_need(run, &dev_exe, "dev");
                    progress(run, "dev child probes done");
                    san::run_sanitizers(run, &corpus, &dev_exe, &mut tools);
                    progress(run, "sanitizer shards done");
                }
            }
            tools
        }))
    } else {
        None
    };

    // 2a. the corpus itself: every target, rotating entry point / option vector
    par_range(if part_on(2) { corpus.len() } else { 0 }, |i| {
        let d = &corpus[i];
        let nt = oracle::nontrivial_input(d);
        let mut calls = 0;
        for (ti, t) in all_targets.iter().enumerate() {
            for k in 0..2 {
                let e = Entry::ALL[(i + ti + k * 4) % Entry::ALL.len()];
                let opt = (i + ti * 3 + k) % targets::N_OPTVEC;
                let out = oracle::exercise(t, e, opt, d);
                if out.applicable {
                    calls += 1;
                    judge(run, &out, t.name(), e, opt, d, None, "corpus");
                }
            }
        }
        run.evals(calls);
        if nt {
            run.nontrivial(fnv_parts(&[b"corpus", d]));
            nt_calls.fetch_add(calls, Ordering::Relaxed);
        }
    });
    // 2b. mutants
    let n_mut = if part_on(2) { tier.pick(60_000, 1_000_000) } else { 0 };
    let mut_kinds: Vec<AtomicU64> = (0..genr::MUTATIONS.len()).map(|_| AtomicU64::new(0)).collect();
    let invalid_utf8_inputs = AtomicU64::new(0);
    par_range(n_mut, |i| {
        let mut rng = Rng::stream(run.seed.wrapping_add(0x5EED), i as u64);
        let a = rng.below(corpus.len());
        let b = rng.below(corpus.len());
        let mut d = corpus[a].clone();
        let mut kinds = Vec::new();
        for _ in 0..rng.range(1, 3) {
            let k = rng.below(genr::MUTATIONS.len());
            kinds.push(genr::MUTATIONS[k]);
            mut_kinds[k].fetch_add(1, Ordering::Relaxed);
            d = genr::mutate(&mut rng, k, &d, &corpus[b], SMALL_INPUT);
        }
        let is_utf8 = std::str::from_utf8(&d).is_ok();
        if !is_utf8 {
            invalid_utf8_inputs.fetch_add(1, Ordering::Relaxed);
        }
        let nt = oracle::nontrivial_input(&d);
        let mut calls = 0;
        for e in Entry::ALL {
            if !is_utf8 && e.needs_str() {
                continue;
            }
            for _ in 0..2 {
                let t = &all_targets[rng.below(all_targets.len())];
                let opt = if rng.bool() { rng.below(targets::N_OPTVEC) } else { targets::OPT_BITS_BASE + rng.below(1 << targets::OPT_BITS) };
                let out = oracle::exercise(t, e, opt, &d);
                if out.applicable {
                    calls += 1;
                    judge(run, &out, t.name(), e, opt, &d, None, &format!("mutant of corpus[{a}] via {kinds:?}"));
                }
            }
        }
        run.evals(calls);
        if nt {
            run.nontrivial(fnv_parts(&[b"mut", &d]));
            nt_calls.fetch_add(calls, Ordering::Relaxed);
        }
        if i % 9973 == 0 {
            run.sample(|| json!({"part": "mutant", "mutations": kinds, "input_preview": text_preview(&d), "valid_utf8": is_utf8}));
        }
    });
    // 2d. structure-aware, exhaustive per document: for every harvested / built-in document up to
    // `sa_len` bytes: truncation at every byte, deletion of every byte, and for every line its
    // deletion, duplication and swap with the next line; each variant through rotating combinations
    {
        let sa_len = tier.pick(160, 400);
        let sa_docs: Vec<&Vec<u8>> = corpus.iter().take(n_harvested_builtin).filter(|d| d.len() >= 2 && d.len() <= sa_len).collect();
        let variants = AtomicU64::new(0);
        let sa_calls = AtomicU64::new(0);
        par_range(if part_on(2) { sa_docs.len() } else { 0 }, |i| {
            let d = sa_docs[i];
            let mut n_var = 0u64;
            let mut calls = 0u64;
            let mut go = |v: &[u8], what: &str| {
                n_var += 1;
                calls += thin_one(v, what, 3, b"sa");
            };
            for cut in 0..d.len() {
                go(&d[..cut], "structure-aware: truncated");
            }
            for del in 0..d.len() {
                let mut v = d.clone();
                v.remove(del);
                go(&v, "structure-aware: byte deleted");
            }
            let lines: Vec<&[u8]> = d.split_inclusive(|b| *b == b'\n').collect();
            for li in 0..lines.len() {
                let cat = |ls: &[&[u8]]| ls.concat();
                let mut del = lines.clone();
                del.remove(li);
                go(&cat(&del), "structure-aware: line deleted");
                let mut dup = lines.clone();
                dup.insert(li, lines[li]);
                go(&cat(&dup), "structure-aware: line duplicated");
                if li + 1 < lines.len() {
                    let mut sw = lines.clone();
                    sw.swap(li, li + 1);
                    go(&cat(&sw), "structure-aware: lines swapped");
                }
            }
            variants.fetch_add(n_var, Ordering::Relaxed);
            sa_calls.fetch_add(calls, Ordering::Relaxed);
            if oracle::nontrivial_input(d) {
                run.nontrivial(fnv_parts(&[b"sa", d]));
                nt_calls.fetch_add(calls, Ordering::Relaxed);
            }
        });
        run.count("structure_aware/documents", sa_docs.len() as u64);
        run.count("structure_aware/variants", variants.load(Ordering::Relaxed));
        run.count("structure_aware/calls", sa_calls.load(Ordering::Relaxed));
    }
    // 2c. scalar spellings at the edges of the typed grammars, in typed contexts
    {
        let mut docs: Vec<String> = Vec::new();
        for sc in genr::EDGE_SCALARS {
            for cx in genr::EDGE_CONTEXTS {
                docs.push(format!("{}\n", cx.replace('@', sc)));
            }
        }
        let n_docs = if part_on(2) { docs.len() } else { 0 };
        par_range(n_docs, |i| {
            let d = docs[i].as_bytes();
            let mut calls = 0;
            for t in all_targets.iter() {
                for opt in 0..targets::N_OPTVEC {
                    for e in [Entry::FromStr, Entry::ReaderC7] {
                        let out = oracle::exercise(t, e, opt, d);
                        if out.applicable {
                            calls += 1;
                            judge(run, &out, t.name(), e, opt, d, None, "edge-scalar grid");
                        }
                    }
                }
            }
            run.evals(calls);
            run.nontrivial(fnv_parts(&[b"edge", d]));
            nt_calls.fetch_add(calls, Ordering::Relaxed);
        });
        run.count("edge_scalar_documents", docs.len() as u64);
    }
    run.count("mutants", n_mut as u64);
    run.count("mutants_invalid_utf8", invalid_utf8_inputs.load(Ordering::Relaxed));
    for (k, c) in mut_kinds.iter().enumerate() {
        run.count(&format!("mutation_applied/{}", genr::MUTATIONS[k]), c.load(Ordering::Relaxed));
    }
    progress(run, "part 2 done");

    // ---- 3. pathological inputs, in-process (1 GiB worker stacks; stack verdicts are taken in children)
    {
        struct Job<'a> {
            p: &'a Patho,
            t: &'a Tgt,
            e: Entry,
            opt: usize,
        }
        let mut jobs = Vec::new();
        for p in pathos.iter() {
            if heavy(p) {
                for (tn, e) in [("Val", Entry::FromStr), ("Ignored", Entry::ReaderC7), ("RcNest", Entry::FromStr)] {
                    if tn == "RcNest" && p.shape != "anchored-map" {
                        continue;
                    }
                    let t = all_targets.iter().find(|t| t.name() == tn).expect("target");
                    jobs.push(Job { p, t, e, opt: 0 });
                }
                continue;
            }
            for t in all_targets.iter() {
                let deep = DEEP_TARGETS.contains(&t.name());
                // quick tier: the targets that stop at the first type mismatch see the nests only at the
                // limit itself, and the large documents only through a representative subset
                if tier == Tier::Quick && !deep {
                    let at_limit = match p.family {
                        "block-nest" => [2000, 2001].contains(&p.param),
                        "flow-nest" => [255, 256].contains(&p.param),
                        "alias-nest" => [2000, 2001].contains(&p.param),
                        _ => ["Mixed", "Strict", "VecString", "String", "TupU8Str", "f64"].contains(&t.name()),
                    };
                    if !at_limit {
                        continue;
                    }
                }
                let entries: &[Entry] = if deep && tier == Tier::Quick && matches!(p.family, "wide" | "anchors" | "scalar") {
                    &[Entry::FromStr, Entry::ReaderC7, Entry::ReadIter]
                } else if deep {
                    &[Entry::FromStr, Entry::FromSlice, Entry::ReaderC7, Entry::FromMultiple, Entry::FromSliceMultiple, Entry::ReadIter, Entry::ReadAbandon, Entry::WithDeReader]
                } else {
                    &[Entry::FromStr, Entry::ReadIter]
                };
                // the O(d^2)-byte shapes and the 8 MiB scalars are expensive: non-deep targets see a thinner grid
                for &opt in patho_opts(p) {
                    if !deep && opt != patho_opts(p)[0] {
                        continue;
                    }
                    // budget off: only where the parser's own limit (flow) or a cheap shape bounds the work
                    if opt == 1 && !(p.family == "flow-nest" || (p.family == "block-nest" && p.param == 2001 && p.shape != "complex-key")) {
                        continue;
                    }
                    for &e in entries {
                        if p.bytes.len() > (1 << 20) && !matches!(e, Entry::FromStr | Entry::ReaderC7 | Entry::ReadIter) {
                            continue;
                        }
                        jobs.push(Job { p, t, e, opt });
                    }
                }
            }
        }
        // cheap deterministic shuffle so that the expensive jobs are spread over the workers
        let mut rng = Rng::new(7);
        rng.shuffle(&mut jobs);
        run.count("pathological_inputs", pathos.len() as u64);
        if !part_on(3) {
            jobs.clear();
        }
        par_range_chunk(jobs.len(), 1, |i| {
            let j = &jobs[i];
            let _permit = if heavy_mem(j.p) { Some(HEAVY.acquire()) } else { None };
            let out = oracle::exercise(j.t, j.e, j.opt, &j.p.bytes);
            if !out.applicable {
                return;
            }
            run.eval();
            judge(run, &out, j.t.name(), j.e, j.opt, &j.p.bytes, Some(j.p), j.p.family);
            run.count(&format!("pathological_calls/{}", j.p.family), 1);
            run.count(&format!("pathological_cpu_ms/{}", j.p.family), (out.cpu_s * 1e3) as u64);
            run.nontrivial(fnv_parts(&[b"patho", j.p.shape.as_bytes(), &j.p.param.to_le_bytes(), j.t.name().as_bytes(), j.e.name().as_bytes(), &[j.opt as u8]]));
            if j.p.shape == "complex-key" && j.t.name() == "Val" && j.e == Entry::FromStr && j.opt == 0 {
                run.max(&format!("cpu/complex_key_nest_ms/depth_{:04}", j.p.param), (out.cpu_s * 1e3) as u64);
            }
            if j.opt != 1 {
                judge_alias_depth(run, "inproc", "release", j.p, j.t.name(), j.e, j.opt, out.oks, |total| {
                    let o = oracle::exercise(j.t, j.e, j.opt, &genr::alias_nest_literal(total));
                    if o.applicable { Some(o.oks > 0) } else { None }
                });
            }
            if out.oks > 0 {
                run.max(&format!("deepest_param_ok_inproc/{}:{}", j.p.family, j.p.shape), j.p.param as u64);
            }
            if let Some(k) = &out.first_kind {
                run.observe(&format!("pathological_error_kinds/{}", j.p.family), k);
            }
        });
    }
    progress(run, "part 3 done");

    let mut fin_tools: Vec<String> = Vec::new();
    if tier == Tier::Thorough && part_on(4) {
        bisect_overflow(run, &exe, "release");
    }
    if let Some(h) = side {
        match h.join() {
            Ok(t) => fin_tools = t,
            Err(_) => run.inconclusive("the dev-profile / sanitizer side thread panicked (harness)"),
        }
    }

    // ---- evidence
    let ld = |a: &AtomicU64| a.load(Ordering::Relaxed);
    run.count("calls_in_process", ld(&STATS.calls));
    run.count("ok_values_returned", ld(&STATS.oks));
    run.count("miette_reports_rendered(4 handlers each)", ld(&STATS.miette_reports));
    run.count("errors_rendered(each in 11 ways)", ld(&STATS.errors_rendered));
    run.count("rendered_bytes", ld(&STATS.rendered_bytes));
    run.count("combinations_not_applicable(skipped)", ld(&STATS.not_applicable));
    run.count("nontrivial_calls(input non-trivial x every combination run on it)", ld(&nt_calls));
    let small_calls = ld(&STATS.small_calls).max(1);
    let mean_ns = ld(&STATS.small_cpu_ns_sum) / small_calls;
    run.count("cpu/small_input_calls", small_calls);
    run.count("cpu/small_input_mean_ns", mean_ns);
    run.count("cpu/small_input_max_us", ld(&STATS.small_cpu_ns_max) / 1000);
    run.count("cpu/big_input_max_ms", ld(&STATS.big_cpu_ns_max) / 1_000_000);
    run.count("cpu/bound_s", CPU_BOUND_S as u64);
    run.note(format!(
        "bounded progress: bound {CPU_BOUND_S} s CPU per call for inputs <= {SMALL_INPUT} bytes = {:.0}x the measured mean cost ({mean_ns} ns) and {:.0}x the measured worst case ({} us)",
        CPU_BOUND_S * 1e9 / mean_ns.max(1) as f64,
        CPU_BOUND_S * 1e9 / ld(&STATS.small_cpu_ns_max).max(1) as f64,
        ld(&STATS.small_cpu_ns_max) / 1000
    ));
    run.count("skipped/reader-directive-at-eof", oracle::SKIPPED_CLASS.load(Ordering::Relaxed));
    {
        let g = oracle::SMALL_MAX.lock().unwrap();
        if g.0 > 0 {
            run.note(format!("most expensive call on an input <= 64 KiB: {:.3} s CPU: {}", g.0 as f64 / 1e9, g.1));
        }
    }
    for k in oracle::KINDS.lock().unwrap().iter() {
        run.observe("error_kinds", k);
    }

    let scope = format!(
        "(1) FULL GRID: all {n3} token strings of length 1..=3 over the 28-token alphabet, plus the empty input, x 12 entry points \
(from_str, from_slice, from_reader with 1- and 7-byte chunks, from_multiple, from_slice_multiple, read drained and polled twice after its end, \
read dropped after the first item, with_deserializer_from_str/_slice/_reader, and the bundle of option-less wrappers [vector 0 only]) \
x option vectors 0..6 x 11 targets (the nine of DESIGN + the garde *_valid and validator *_validate families); combinations that do not exist \
(&str entry x borrowing-only target, closure helpers x validating families ...) skipped{}. \
(2) THIN GRID: all {} token strings of length {} x {} combinations each, chosen by a hash of the string from all {} targets x 12 entry points x \
(7 fixed + 2^17 bit-encoded option vectors). \
(3) ROBOTICS: all {} token strings of length 1..={rob_len} over the 22-token expression alphabet, as a scalar in 6 float contexts/targets with angle_conversions on. \
(4) STRUCTURE-AWARE: for every harvested or built-in corpus document of 2..={} bytes: truncation at every byte, deletion of every byte, and deletion / duplication / swap-with-next of every line, x 3 hashed combinations. \
(5) edge-scalar grid: {} scalar spellings x {} typed contexts x all targets x 7 option vectors x 2 entry points. \
(6) pathological sizes listed in the counters (block / flow / alias-composed nesting around and beyond max_depth, 250 000-node documents, 1024+-1 documents, 50 000+-1 anchors/aliases, 8 MiB scalars, robotics runs) in-process and in 8 MiB-stack child processes",
        if tier == Tier::Thorough {
            format!("; plus all {} strings of length 4 x the 9 DESIGN entry points x option vectors 0..3 x the nine DESIGN targets", n4 - n3)
        } else {
            String::new()
        },
        thin_hi - thin_lo,
        tier.pick(4, 5),
        thin_k,
        all_targets.len(),
        genr::robotics_space(rob_len),
        tier.pick(160, 400),
        genr::EDGE_SCALARS.len(),
        genr::EDGE_CONTEXTS.len(),
    );
    let mut f = Finish::new(
        "an input is non-trivial when the raw parser produced >= 1 content event or a scan error past offset 0 (checked with saphyr-parser directly); distinct_nontrivial counts distinct non-trivial inputs of the full grid, the corpus, the mutants, the structure-aware base documents and the edge grid (each run through its whole grid: counter nontrivial_calls), a 1/65521 sample of the thin-grid strings and 1/101 of the robotics strings (their totals are in the counters), plus distinct pathological (shape, size, target, entry, option) calls and child probes that returned. Every execution = one entry-point call under catch_unwind + every returned error rendered 11 ways (Display, Debug, render, 3 formatters, 2 option sets, without_snippet Display/Debug, source chain) and, for option vector 0 and every second bit-encoded one on UTF-8 input, converted with serde_saphyr::miette and rendered by the graphical (Debug + explicit 60-column), narratable and JSON handlers",
    )
    .exhaustive(scope)
    .assume("'always terminates' is restated as bounded progress: <= 60 s CPU per call for inputs <= 64 KiB (about 20x the most expensive call of the workload on an idle machine: a 1 M-event alias replay into a garde-validated target with the budget off, 2.8 s), measured with the thread CPU clock; a wall-clock watchdog firing is inconclusive")
    .assume("stack verdicts: child process with RLIMIT_STACK = 8 MiB, call made on the main thread, classified by the runtime's 'has overflowed its stack' abort")
    .assume("a sanitizer that cannot be built or run here is counted as inconclusive, never as a violation")
    .min_nontrivial(tier.pick(20_000, 300_000));
    for t in fin_tools {
        f = f.tool(t);
    }
    finish(run, f);
}

#[allow(dead_code)]
fn _unused(_: PathBuf) {}
