//! Child-process side (`c01 child …`, run on the main thread whose stack is the
//! RLIMIT_STACK the parent set) and the parent-side classification of how a
//! child ended.

use crate::oracle::{self, Bad};
use crate::targets::{self, Entry};
use serde_json::{Value, json};
use std::io::Read;
use std::path::Path;
use vcore::obs::ChildOutcome;

pub const STACK_BYTES: u64 = 8 * 1024 * 1024;
thread_local! {
    /// Stack limit for children started from this thread, when measuring how much stack a call needs.
    pub static STACK_OVERRIDE: std::cell::Cell<Option<u64>> = const { std::cell::Cell::new(None) };
}
/// exit code of the child for "the harness was called wrongly" (never a verdict)
pub const EXIT_HARNESS: i32 = 64;

/// `c01 child <entry> <target> <opt>`: input on stdin, one JSON line on stdout.
pub fn child_main(args: &[String]) -> ! {
    let (Some(entry), Some(tgt), Some(opt)) = (
        args.first().and_then(|s| Entry::from_name(s)),
        args.get(1).and_then(|s| targets::by_name(s)),
        args.get(2).and_then(|s| s.parse::<usize>().ok()),
    ) else {
        eprintln!("c01 child: bad arguments {args:?}");
        std::process::exit(EXIT_HARNESS);
    };
    if args.get(3).map(|s| s.as_str()) == Some("nofuel") {
        targets::NO_FUEL.store(true, std::sync::atomic::Ordering::Relaxed);
    }
    let mut input = Vec::new();
    if std::io::stdin().read_to_end(&mut input).is_err() {
        std::process::exit(EXIT_HARNESS);
    }
    let out = oracle::exercise(&tgt, entry, opt, &input);
    let v = json!({
        "applicable": out.applicable,
        "oks": out.oks,
        "errs": out.errs,
        "kind": out.first_kind,
        "cpu_s": out.cpu_s,
        "panic": match &out.bad { Some(Bad::Panic(p)) => Some(p.clone()), _ => None },
        "iter_overrun": matches!(out.bad, Some(Bad::IterOverrun)),
        "eof_spin": match &out.bad { Some(Bad::EofSpin { msg, .. }) => Some(msg.clone()), _ => None },
    });
    println!("{v}");
    std::process::exit(0);
}

#[derive(Debug, Clone)]
pub enum ChildClass {
    Returned(Value),
    StackOverflow,
    AllocAbort,
    Signal(i32),
    AbnormalExit(i32),
    Inconclusive(String),
}

pub fn signal_name(s: i32) -> String {
    match s {
        libc::SIGSEGV => "SIGSEGV".into(),
        libc::SIGABRT => "SIGABRT".into(),
        libc::SIGBUS => "SIGBUS".into(),
        libc::SIGILL => "SIGILL".into(),
        libc::SIGFPE => "SIGFPE".into(),
        libc::SIGKILL => "SIGKILL".into(),
        libc::SIGXCPU => "SIGXCPU".into(),
        n => format!("SIG{n}"),
    }
}

pub fn classify(o: &ChildOutcome) -> ChildClass {
    if o.timed_out {
        return ChildClass::Inconclusive("child: wall-clock watchdog fired".into());
    }
    if o.stderr.contains("has overflowed its stack") {
        return ChildClass::StackOverflow;
    }
    if o.stderr.contains("memory allocation of") {
        return ChildClass::AllocAbort;
    }
    if let Some(s) = o.signal {
        return match s {
            libc::SIGKILL => ChildClass::Inconclusive("child: SIGKILL (OOM killer or rlimit)".into()),
            libc::SIGXCPU => ChildClass::Inconclusive("child: SIGXCPU (cpu rlimit)".into()),
            s => ChildClass::Signal(s),
        };
    }
    match o.exit_code {
        Some(0) => match o.stdout.lines().last().and_then(|l| serde_json::from_str::<Value>(l).ok()) {
            Some(v) => ChildClass::Returned(v),
            None => ChildClass::Inconclusive("child: exit 0 without a result line".into()),
        },
        Some(EXIT_HARNESS) => ChildClass::Inconclusive("child: harness usage error".into()),
        Some(c) => ChildClass::AbnormalExit(c),
        None => ChildClass::Inconclusive("child: no exit status".into()),
    }
}

/// Run one case in a child of `exe` with an 8 MiB main-thread stack.
pub fn run_case(
    exe: &Path,
    entry: Entry,
    target: &str,
    opt: usize,
    input: &[u8],
    cpu_limit_s: u64,
    wall_s: u64,
) -> std::io::Result<(ChildOutcome, ChildClass)> {
    run_case_x(exe, entry, target, opt, input, cpu_limit_s, wall_s, false)
}

/// `nofuel`: the child's reader never gives up on a caller that polls it at EOF
/// (used to confirm a suspected hang against the CPU bound).
#[allow(clippy::too_many_arguments)]
pub fn run_case_x(
    exe: &Path,
    entry: Entry,
    target: &str,
    opt: usize,
    input: &[u8],
    cpu_limit_s: u64,
    wall_s: u64,
    nofuel: bool,
) -> std::io::Result<(ChildOutcome, ChildClass)> {
    run_case_limits(exe, entry, target, opt, input, cpu_limit_s, wall_s, nofuel, None)
}

/// As `run_case_x`, with an address-space limit for the child.
#[allow(clippy::too_many_arguments)]
pub fn run_case_limits(
    exe: &Path,
    entry: Entry,
    target: &str,
    opt: usize,
    input: &[u8],
    cpu_limit_s: u64,
    wall_s: u64,
    nofuel: bool,
    as_bytes: Option<u64>,
) -> std::io::Result<(ChildOutcome, ChildClass)> {
    let mut args = vec!["child".to_string(), entry.name().to_string(), target.to_string(), opt.to_string()];
    if nofuel {
        args.push("nofuel".into());
    }
    let o = vcore::obs::run_child(exe, &args, Some(input), Some(STACK_OVERRIDE.with(|s| s.get()).unwrap_or(STACK_BYTES)), as_bytes, Some(cpu_limit_s), wall_s)?;
    let c = classify(&o);
    Ok((o, c))
}

pub fn stderr_head(o: &ChildOutcome) -> String {
    o.stderr.lines().filter(|l| !l.trim().is_empty()).take(4).collect::<Vec<_>>().join(" | ").chars().take(400).collect()
}
