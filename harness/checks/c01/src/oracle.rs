//! The in-process oracle: one call of an entry point with every returned error
//! rendered in all public ways, under `catch_unwind`, with the thread's CPU time
//! measured around it; plus the stall monitor that notices a call which does
//! not return.

use crate::targets::{Entry, Tgt, optvec};
use serde_saphyr::{DefaultMessageFormatter, Error, MessageFormatter, RenderOptions, SnippetMode, UserMessageFormatter};
use std::cell::RefCell;
use std::collections::{BTreeSet, HashSet};
use std::sync::Mutex;
use std::sync::atomic::{AtomicU64, Ordering};

/// Bounded progress: an input of at most `SMALL_INPUT` bytes must be processed
/// (deserialized and its error rendered) within `CPU_BOUND_S` seconds of CPU
/// time. Fixed before measuring; the evidence reports the measured typical and
/// worst cost so the >= 10^4 factor can be read off.
pub const CPU_BOUND_S: f64 = 60.0;
pub const SMALL_INPUT: usize = 64 * 1024;
/// CPU seconds after which a call on a larger input is given up (inconclusive).
pub const BIG_STALL_S: f64 = 600.0;

pub struct Stats {
    pub calls: AtomicU64,
    pub oks: AtomicU64,
    pub errors_rendered: AtomicU64,
    pub rendered_bytes: AtomicU64,
    pub not_applicable: AtomicU64,
    pub small_cpu_ns_sum: AtomicU64,
    pub small_cpu_ns_max: AtomicU64,
    pub small_calls: AtomicU64,
    pub big_cpu_ns_max: AtomicU64,
    pub miette_reports: AtomicU64,
}

pub static STATS: Stats = Stats {
    calls: AtomicU64::new(0),
    oks: AtomicU64::new(0),
    errors_rendered: AtomicU64::new(0),
    rendered_bytes: AtomicU64::new(0),
    not_applicable: AtomicU64::new(0),
    small_cpu_ns_sum: AtomicU64::new(0),
    small_cpu_ns_max: AtomicU64::new(0),
    small_calls: AtomicU64::new(0),
    big_cpu_ns_max: AtomicU64::new(0),
    miette_reports: AtomicU64::new(0),
};

/// Set when the start-up probe found that reader entry points do not return on
/// a directive line that runs into end of input: members of that class are then
/// not executed in-process (they would never give the worker thread back).
pub static GATE_CLOSED: std::sync::atomic::AtomicBool = std::sync::atomic::AtomicBool::new(false);
pub static SKIPPED_CLASS: AtomicU64 = AtomicU64::new(0);
/// (cpu ns, description) of the most expensive call on an input <= SMALL_INPUT
pub static SMALL_MAX: Mutex<(u64, String)> = Mutex::new((0, String::new()));

pub static KINDS: Mutex<BTreeSet<String>> = Mutex::new(BTreeSet::new());
thread_local! {
    static KINDS_SEEN: RefCell<HashSet<String>> = RefCell::new(HashSet::new());
}

fn note_kind(k: &str) {
    KINDS_SEEN.with(|s| {
        let mut s = s.borrow_mut();
        if !s.contains(k) {
            s.insert(k.to_string());
            KINDS.lock().unwrap().insert(k.to_string());
        }
    });
}

pub enum Bad {
    /// "msg @ file:line:col"
    Panic(String),
    /// the drained iterator yielded more items than the input has bytes + 2
    IterOverrun,
    /// CPU seconds used by a call on an input <= SMALL_INPUT
    Cpu(f64),
    /// the call kept polling its reader at end of input until the reader's fuel ran out.
    /// `twin`: the input actually executed when that was the BOM-less twin of the given one.
    EofSpin { msg: String, twin: Option<Vec<u8>> },
}

pub struct CaseOut {
    pub applicable: bool,
    pub oks: usize,
    pub errs: usize,
    pub first_kind: Option<String>,
    pub cpu_s: f64,
    pub bad: Option<Bad>,
}

/// A caller-supplied formatter (the renderer adds locations / snippets around it).
struct FixedFormatter;
impl MessageFormatter for FixedFormatter {
    fn format_message<'a>(&self, _err: &'a Error) -> std::borrow::Cow<'a, str> {
        std::borrow::Cow::Borrowed("m\u{e9}ssage")
    }
}

/// Render one error in every public way. Returns (bytes produced, kind).
///
/// `source`: the exact text the error was produced from, when it is valid UTF-8
/// and the case is one of those that also go through the miette conversion
/// (`serde_saphyr::miette::to_miette_report` + graphical, narratable and JSON
/// report handlers).
pub fn render_all(e: &Error, source: Option<&str>) -> (usize, String) {
    let mut n = 0;
    if let Some(src) = source {
        let rep = serde_saphyr::miette::to_miette_report(e, src, "input.yaml");
        n += format!("{rep:?}").len();
        n += rep.to_string().len();
        let mut out = String::new();
        let _ = miette::GraphicalReportHandler::new_themed(miette::GraphicalTheme::unicode_nocolor()).with_width(60).render_report(&mut out, rep.as_ref());
        let _ = miette::NarratableReportHandler::new().render_report(&mut out, rep.as_ref());
        let _ = miette::JSONReportHandler::new().render_report(&mut out, rep.as_ref());
        n += out.len();
        let rep2 = serde_saphyr::miette::to_miette_report_with_formatter(e, src, "", &UserMessageFormatter);
        n += format!("{rep2:?}").len();
        STATS.miette_reports.fetch_add(1, Ordering::Relaxed);
    }
    let mut src_err: Option<&dyn std::error::Error> = std::error::Error::source(e);
    let mut hops = 0;
    while let Some(s) = src_err {
        n += s.to_string().len();
        src_err = s.source();
        hops += 1;
        if hops > 64 {
            break;
        }
    }
    n += e.to_string().len();
    n += format!("{e:?}").len();
    n += e.render().len();
    n += e.render_with_formatter(&UserMessageFormatter).len();
    n += e.render_with_formatter(&FixedFormatter).len();
    let dm = DefaultMessageFormatter;
    let mut ro = RenderOptions::new(&dm);
    ro.snippets = SnippetMode::Off;
    n += e.render_with_options(ro).len();
    let um = UserMessageFormatter;
    let mut ro2 = RenderOptions::new(&um);
    ro2.snippets = SnippetMode::Auto;
    n += e.render_with_options(ro2).len();
    let plain = e.without_snippet();
    n += plain.to_string().len();
    let dbg = format!("{plain:?}");
    n += dbg.len();
    let _ = e.location();
    let _ = e.locations();
    let kind: String = dbg.chars().take_while(|c| c.is_ascii_alphanumeric() || *c == '_').collect();
    (n, kind)
}

#[cfg(not(miri))]
fn cpu_now() -> f64 {
    vcore::obs::thread_cpu_s()
}
#[cfg(miri)]
fn cpu_now() -> f64 {
    0.0
}

/// The character stream the parser is handed on the reader path, as UTF-8
/// bytes: decoded exactly as the library decodes (encoding_rs_io, BOM sniffing),
/// cut at the first invalid UTF-8 sequence and at the reader byte cap of the
/// option vector, without a leading U+FEFF.
pub fn effective_stream(input: &[u8], opt: usize) -> Vec<u8> {
    use std::io::Read;
    let mut dec = encoding_rs_io::DecodeReaderBytesBuilder::new().encoding(None).build(input);
    let mut out = Vec::new();
    let _ = dec.read_to_end(&mut out);
    let valid = match std::str::from_utf8(&out) {
        Ok(s) => s,
        Err(e) => std::str::from_utf8(&out[..e.valid_up_to()]).unwrap_or(""),
    };
    let valid = valid.strip_prefix('\u{FEFF}').unwrap_or(valid);
    #[allow(deprecated)]
    let cap = optvec(opt).budget.and_then(|b| b.max_reader_input_bytes).unwrap_or(usize::MAX);
    let mut end = 0;
    for (i, ch) in valid.char_indices() {
        if i + ch.len_utf8() > cap {
            break;
        }
        end = i + ch.len_utf8();
    }
    valid.as_bytes()[..end].to_vec()
}

pub fn has_bom(input: &[u8]) -> bool {
    input.starts_with(&[0xFF, 0xFE]) || input.starts_with(&[0xFE, 0xFF]) || input.starts_with(&[0xEF, 0xBB, 0xBF])
}

/// Class of a reader-based call that span at end of input: does the character
/// stream end (true EOF, read error, invalid UTF-8, byte cap) inside a line that
/// starts with `%` (a directive line)?
pub fn spin_class(input: &[u8], opt: usize) -> &'static str {
    let eff = effective_stream(input, opt);
    let last = eff.rsplit(|b| *b == b'\n' || *b == b'\r').next().unwrap_or(&[]);
    if last.starts_with(b"%") { "directive-line-at-eof" } else { "other" }
}

/// One monitored execution.
///
/// A spin at end of input can only be escaped while the caller keeps polling
/// the reader (`FuelReader`). With a BOM the decoding layer stops polling at
/// EOF, so a BOM-carrying input of the class already seen spinning
/// (`directive-line-at-eof`) is preceded by its BOM-less twin: if the twin spins,
/// that is reported (for the twin) and the BOM form is not executed in-process;
/// if the twin returns, the input itself is executed as usual.
pub fn exercise(t: &Tgt, entry: Entry, opt: usize, input: &[u8]) -> CaseOut {
    if entry.is_reader() && GATE_CLOSED.load(Ordering::Relaxed) && spin_class(input, opt) == "directive-line-at-eof" {
        SKIPPED_CLASS.fetch_add(1, Ordering::Relaxed);
        return CaseOut { applicable: false, oks: 0, errs: 0, first_kind: None, cpu_s: 0.0, bad: None };
    }
    if entry.is_reader() && has_bom(input) && spin_class(input, opt) == "directive-line-at-eof" {
        let twin = effective_stream(input, opt);
        let mut out = exercise_raw(t, entry, opt, &twin);
        if let Some(Bad::EofSpin { msg, .. }) = out.bad.take() {
            out.bad = Some(Bad::EofSpin { msg, twin: Some(twin) });
            return out;
        }
    }
    exercise_raw(t, entry, opt, input)
}

/// Which cases also go through the miette conversion: the default vector
/// and every second bit-encoded vector (a pure
/// function of the case, so a replay renders exactly what the run rendered).
pub fn with_miette(opt: usize) -> bool {
    opt == 0 || (opt >= crate::targets::OPT_BITS_BASE && opt & 1 == 0)
}

fn exercise_raw(t: &Tgt, entry: Entry, opt: usize, input: &[u8]) -> CaseOut {
    if entry == Entry::Defaults && opt != 0 {
        // the option-less wrappers ignore the option vector: they exist once, under vector 0
        STATS.not_applicable.fetch_add(1, Ordering::Relaxed);
        return CaseOut { applicable: false, oks: 0, errs: 0, first_kind: None, cpu_s: 0.0, bad: None };
    }
    let miette_src = if with_miette(opt) && input.len() <= 1 << 20 { std::str::from_utf8(input).ok() } else { None };
    let c0 = cpu_now();
    stall::enter(t.name(), entry, opt, input, c0);
    let r = vcore::obs::catch(|| {
        let res = t.call(entry, input, optvec(opt))?;
        let mut bytes = 0usize;
        let mut first_kind = None;
        for e in &res.errs {
            let (n, k) = render_all(e, miette_src);
            bytes += n;
            note_kind(&k);
            if first_kind.is_none() {
                first_kind = Some(k);
            }
        }
        Some((res.oks, res.errs.len(), res.iter_overrun, bytes, first_kind))
    });
    stall::leave();
    let cpu = cpu_now() - c0;
    let mut out = CaseOut { applicable: true, oks: 0, errs: 0, first_kind: None, cpu_s: cpu, bad: None };
    match r {
        Err(p) => {
            STATS.calls.fetch_add(1, Ordering::Relaxed);
            out.bad = Some(if p.starts_with(crate::targets::FUEL_MARK) { Bad::EofSpin { msg: p, twin: None } } else { Bad::Panic(p) });
        }
        Ok(None) => {
            STATS.not_applicable.fetch_add(1, Ordering::Relaxed);
            out.applicable = false;
            return out;
        }
        Ok(Some((oks, errs, overrun, bytes, first_kind))) => {
            STATS.calls.fetch_add(1, Ordering::Relaxed);
            STATS.oks.fetch_add(oks as u64, Ordering::Relaxed);
            STATS.errors_rendered.fetch_add(errs as u64, Ordering::Relaxed);
            STATS.rendered_bytes.fetch_add(bytes as u64, Ordering::Relaxed);
            out.oks = oks;
            out.errs = errs;
            out.first_kind = first_kind;
            if overrun {
                out.bad = Some(Bad::IterOverrun);
            }
        }
    }
    let ns = (cpu * 1e9) as u64;
    if input.len() <= SMALL_INPUT {
        STATS.small_calls.fetch_add(1, Ordering::Relaxed);
        STATS.small_cpu_ns_sum.fetch_add(ns, Ordering::Relaxed);
        if STATS.small_cpu_ns_max.fetch_max(ns, Ordering::Relaxed) < ns && ns > 50_000_000 {
            let mut g = SMALL_MAX.lock().unwrap();
            if ns > g.0 {
                *g = (
                    ns,
                    format!(
                        "{} via {} opt {opt} on {} bytes starting {:?}",
                        t.name(),
                        entry.name(),
                        input.len(),
                        String::from_utf8_lossy(&input[..input.len().min(40)])
                    ),
                );
            }
        }
        if cpu > CPU_BOUND_S && out.bad.is_none() {
            out.bad = Some(Bad::Cpu(cpu));
        }
    } else {
        STATS.big_cpu_ns_max.fetch_max(ns, Ordering::Relaxed);
    }
    out
}

/// Is the input non-trivial by the DESIGN §3.6 rule for C01: the raw parser
/// produced at least one content event, or a scan error past offset 0?
pub fn nontrivial_input(input: &[u8]) -> bool {
    let s = String::from_utf8_lossy(input);
    let s = s.strip_prefix('\u{FEFF}').unwrap_or(&s);
    let (evs, err) = vcore::reftree::raw_events(s);
    use vcore::reftree::RawKind::*;
    let content = evs
        .iter()
        .any(|e| matches!(e.kind, Alias(_) | Scalar { .. } | SeqStart { .. } | MapStart { .. }));
    content || err.map(|e| e.index > 0).unwrap_or(false)
}

// ------------------------------------------------------------------ stall monitor

pub mod stall {
    //! Every worker thread publishes the call it is in; a monitor thread reads
    //! the worker's CPU clock. A call whose CPU time passes the bound never
    //! "returns within the bound", whether or not it would return later.

    use crate::targets::Entry;
    use std::cell::Cell;
    use std::sync::Mutex;
    use std::sync::atomic::{AtomicUsize, Ordering};

    pub struct Cur {
        pub active: bool,
        pub target: &'static str,
        pub entry: Entry,
        pub opt: usize,
        /// the whole input when it is <= SMALL_INPUT bytes, else its first 256 bytes
        pub input: Vec<u8>,
        pub full_len: usize,
        pub cpu0: f64,
        pub thread: libc::pthread_t,
        pub handled: bool,
    }

    pub const N_SLOTS: usize = 256;
    static NEXT: AtomicUsize = AtomicUsize::new(0);
    pub static SLOTS: [Mutex<Option<Cur>>; N_SLOTS] = [const { Mutex::new(None) }; N_SLOTS];

    struct SlotGuard(Cell<usize>);
    impl Drop for SlotGuard {
        fn drop(&mut self) {
            let i = self.0.get();
            if i < N_SLOTS
                && let Ok(mut g) = SLOTS[i].lock()
            {
                *g = None; // the thread is about to exit: its pthread_t must not be used any more
            }
        }
    }
    thread_local! {
        static MY: SlotGuard = const { SlotGuard(Cell::new(usize::MAX)) };
    }

    #[cfg(not(miri))]
    pub fn enter(target: &'static str, entry: Entry, opt: usize, input: &[u8], cpu0: f64) {
        let _ = MY.try_with(|g| {
            let mut i = g.0.get();
            if i == usize::MAX {
                i = NEXT.fetch_add(1, Ordering::Relaxed) % N_SLOTS;
                g.0.set(i);
            }
            let mut s = SLOTS[i].lock().unwrap();
            let cur = s.get_or_insert_with(|| Cur {
                active: false,
                target: "",
                entry: Entry::FromStr,
                opt: 0,
                input: Vec::new(),
                full_len: 0,
                cpu0: 0.0,
                thread: unsafe { libc::pthread_self() },
                handled: false,
            });
            cur.active = true;
            cur.target = target;
            cur.entry = entry;
            cur.opt = opt;
            cur.input.clear();
            cur.input.extend_from_slice(if input.len() <= super::SMALL_INPUT { input } else { &input[..256] });
            cur.full_len = input.len();
            cur.cpu0 = cpu0;
            cur.handled = false;
        });
    }
    #[cfg(not(miri))]
    pub fn leave() {
        let _ = MY.try_with(|g| {
            let i = g.0.get();
            if i < N_SLOTS
                && let Some(c) = SLOTS[i].lock().unwrap().as_mut()
            {
                c.active = false;
            }
        });
    }
    #[cfg(miri)]
    pub fn enter(_: &'static str, _: Entry, _: usize, _: &[u8], _: f64) {}
    #[cfg(miri)]
    pub fn leave() {}

    pub struct Stalled {
        pub target: &'static str,
        pub entry: Entry,
        pub opt: usize,
        pub input: Vec<u8>,
        pub full_len: usize,
        pub cpu_s: f64,
    }

    /// One scan over the slots: calls that have used more CPU than their limit.
    #[cfg(not(miri))]
    pub fn scan() -> Vec<Stalled> {
        let mut out = Vec::new();
        for s in SLOTS.iter() {
            let Ok(mut g) = s.lock() else { continue };
            let Some(c) = g.as_mut() else { continue };
            if !c.active || c.handled {
                continue;
            }
            let mut clk: libc::clockid_t = 0;
            if unsafe { libc::pthread_getcpuclockid(c.thread, &mut clk) } != 0 {
                continue;
            }
            let mut ts = libc::timespec { tv_sec: 0, tv_nsec: 0 };
            if unsafe { libc::clock_gettime(clk, &mut ts) } != 0 {
                continue;
            }
            let now = ts.tv_sec as f64 + ts.tv_nsec as f64 / 1e9;
            let used = now - c.cpu0;
            let limit = if c.full_len <= super::SMALL_INPUT { super::CPU_BOUND_S * 1.25 } else { super::BIG_STALL_S };
            if used > limit {
                c.handled = true;
                out.push(Stalled { target: c.target, entry: c.entry, opt: c.opt, input: c.input.clone(), full_len: c.full_len, cpu_s: used });
            }
        }
        out
    }
    #[cfg(miri)]
    pub fn scan() -> Vec<Stalled> {
        Vec::new()
    }
}
