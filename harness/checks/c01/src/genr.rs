//! Workload generators: token strings, corpus harvest, mutations, pathological inputs.

use vcore::rng::Rng;
use vcore::treegen::{self, LEAVES_BASIC};
use vcore::ydoc::{self, Node, RenderOpts};

// ------------------------------------------------------------------ token strings

pub const ALPHABET: [&str; 28] = [
    "a", "1", " ", "\n", "\t", "-", ":", "?", "[", "]", "{", "}", ",", "&a", "*a", "!t", "|", ">", "'", "\"", "#", "%",
    "<<", "---", "...", "~", "\\", "é",
];

/// Number of token strings of length 1..=max_len.
pub fn token_space(max_len: usize) -> usize {
    (1..=max_len).map(|l| ALPHABET.len().pow(l as u32)).sum()
}

/// The `i`-th token string in the enumeration "length 1, then length 2, …".
pub fn token_string(mut i: usize) -> String {
    let n = ALPHABET.len();
    let mut len = 1;
    loop {
        let c = n.pow(len as u32);
        if i < c {
            break;
        }
        i -= c;
        len += 1;
    }
    let mut toks = Vec::with_capacity(len);
    for _ in 0..len {
        toks.push(ALPHABET[i % n]);
        i /= n;
    }
    toks.reverse();
    toks.concat()
}

/// Alphabet of the robotics expression mini-language (numbers, operators,
/// parentheses, functions, constants, sexagesimal colon, underscore, blanks, a
/// multi-byte character, a hex prefix letter).
pub const ROBOTICS_ALPHABET: [&str; 22] =
    ["1", "0", ".", "5", "e", "+", "-", "*", "/", "(", ")", "deg", "rad", "pi", "tau", "inf", "nan", ":", "_", " ", "é", "x"];

pub fn robotics_space(max_len: usize) -> usize {
    (1..=max_len).map(|l| ROBOTICS_ALPHABET.len().pow(l as u32)).sum()
}

pub fn robotics_string(mut i: usize) -> String {
    let n = ROBOTICS_ALPHABET.len();
    let mut len = 1;
    loop {
        let c = n.pow(len as u32);
        if i < c {
            break;
        }
        i -= c;
        len += 1;
    }
    let mut toks = Vec::with_capacity(len);
    for _ in 0..len {
        toks.push(ROBOTICS_ALPHABET[i % n]);
        i /= n;
    }
    toks.reverse();
    toks.concat()
}

pub fn random_token_string(rng: &mut Rng, len: usize) -> String {
    (0..len).map(|_| *rng.pick(&ALPHABET)).collect()
}

// ------------------------------------------------------------------ corpus harvest

/// Extract the string literals of a Rust source text (ordinary, raw and byte
/// strings), with escapes decoded. A simple scanner, not a Rust lexer: it skips
/// comments and char literals well enough for test files; anything it gets
/// wrong only yields odd corpus entries, never a verdict.
pub fn rust_string_literals(src: &str) -> Vec<Vec<u8>> {
    let b = src.as_bytes();
    let mut out = Vec::new();
    let mut i = 0;
    while i < b.len() {
        let c = b[i];
        // comments
        if c == b'/' && i + 1 < b.len() && b[i + 1] == b'/' {
            while i < b.len() && b[i] != b'\n' {
                i += 1;
            }
            continue;
        }
        if c == b'/' && i + 1 < b.len() && b[i + 1] == b'*' {
            let mut depth = 1;
            i += 2;
            while i + 1 < b.len() && depth > 0 {
                if b[i] == b'/' && b[i + 1] == b'*' {
                    depth += 1;
                    i += 2;
                } else if b[i] == b'*' && b[i + 1] == b'/' {
                    depth -= 1;
                    i += 2;
                } else {
                    i += 1;
                }
            }
            continue;
        }
        // raw strings r"..." r#"..."# (optionally preceded by b)
        if c == b'r' && (i == 0 || !(b[i - 1].is_ascii_alphanumeric() || b[i - 1] == b'_') || b[i - 1] == b'b') {
            let mut j = i + 1;
            let mut hashes = 0;
            while j < b.len() && b[j] == b'#' {
                hashes += 1;
                j += 1;
            }
            if j < b.len() && b[j] == b'"' {
                let start = j + 1;
                let mut k = start;
                let mut found = None;
                while k < b.len() {
                    if b[k] == b'"' && k + 1 + hashes <= b.len() && b[k + 1..k + 1 + hashes].iter().all(|x| *x == b'#') {
                        found = Some(k);
                        break;
                    }
                    k += 1;
                }
                if let Some(k) = found {
                    out.push(b[start..k].to_vec());
                    i = k + 1 + hashes;
                    continue;
                }
            }
        }
        // char literal or lifetime
        if c == b'\'' {
            // 'x' | '\n' | '\u{..}' | 'a (lifetime)
            if i + 2 < b.len() && b[i + 1] == b'\\' {
                let mut k = i + 2;
                while k < b.len() && b[k] != b'\'' && k < i + 12 {
                    k += 1;
                }
                i = k + 1;
                continue;
            }
            // one UTF-8 char then a quote
            let ch_len = src[i + 1..].chars().next().map(|ch| ch.len_utf8()).unwrap_or(1);
            if i + 1 + ch_len < b.len() && b[i + 1 + ch_len] == b'\'' {
                i += ch_len + 2;
                continue;
            }
            i += 1;
            continue;
        }
        if c == b'"' {
            let mut k = i + 1;
            let mut s: Vec<u8> = Vec::new();
            let mut ok = false;
            while k < b.len() {
                match b[k] {
                    b'"' => {
                        ok = true;
                        break;
                    }
                    b'\\' if k + 1 < b.len() => {
                        k += 1;
                        match b[k] {
                            b'n' => s.push(b'\n'),
                            b't' => s.push(b'\t'),
                            b'r' => s.push(b'\r'),
                            b'0' => s.push(0),
                            b'\\' => s.push(b'\\'),
                            b'"' => s.push(b'"'),
                            b'\'' => s.push(b'\''),
                            b'x' if k + 2 < b.len() => {
                                let h = std::str::from_utf8(&b[k + 1..k + 3]).ok().and_then(|h| u8::from_str_radix(h, 16).ok());
                                if let Some(v) = h {
                                    s.push(v);
                                }
                                k += 2;
                            }
                            b'u' if k + 1 < b.len() && b[k + 1] == b'{' => {
                                let mut e = k + 2;
                                while e < b.len() && b[e] != b'}' {
                                    e += 1;
                                }
                                let h: String = src[k + 2..e.min(b.len())].chars().filter(|c| *c != '_').collect();
                                if let Some(ch) = u32::from_str_radix(&h, 16).ok().and_then(char::from_u32) {
                                    let mut buf = [0u8; 4];
                                    s.extend_from_slice(ch.encode_utf8(&mut buf).as_bytes());
                                }
                                k = e;
                            }
                            b'\n' => {
                                // line continuation: skip following whitespace
                                while k + 1 < b.len() && (b[k + 1] == b' ' || b[k + 1] == b'\t' || b[k + 1] == b'\n' || b[k + 1] == b'\r') {
                                    k += 1;
                                }
                            }
                            other => {
                                s.push(b'\\');
                                s.push(other);
                            }
                        }
                        k += 1;
                    }
                    x => {
                        s.push(x);
                        k += 1;
                    }
                }
            }
            if ok {
                out.push(s);
                i = k + 1;
                continue;
            }
            break;
        }
        i += 1;
    }
    out
}

fn walk_rs(dir: &std::path::Path, files: &mut Vec<std::path::PathBuf>) {
    let Ok(rd) = std::fs::read_dir(dir) else { return };
    let mut entries: Vec<_> = rd.flatten().map(|e| e.path()).collect();
    entries.sort();
    for p in entries {
        if p.is_dir() {
            walk_rs(&p, files);
        } else if p.extension().map(|e| e == "rs").unwrap_or(false) {
            files.push(p);
        }
    }
}

/// String literals of every `*.rs` under `dir`, de-duplicated, 1..=max_len bytes,
/// in a deterministic order. Returns (literals, files read).
pub fn harvest(dir: &std::path::Path, max_len: usize) -> (Vec<Vec<u8>>, usize) {
    let mut files = Vec::new();
    walk_rs(dir, &mut files);
    let mut seen = std::collections::HashSet::new();
    let mut out = Vec::new();
    let mut nfiles = 0;
    for f in &files {
        let Ok(txt) = std::fs::read_to_string(f) else { continue };
        nfiles += 1;
        for lit in rust_string_literals(&txt) {
            if lit.is_empty() || lit.len() > max_len {
                continue;
            }
            if seen.insert(vcore::rng::fnv(&lit)) {
                out.push(lit);
            }
        }
    }
    (out, nfiles)
}

/// A small built-in corpus (used under Miri, where no file is read, and mixed
/// into the harvested corpus elsewhere).
pub const BUILTIN: &[&str] = &[
    "a: 1\nb: [x, y]\n",
    "- &a x\n- *a\n- {<<: {k: v}, k2: w}\n",
    "k1: !!binary aGVsbG8=\nk2: 0x1F\nk3: [1, 2, 3]\n",
    "? [a, b]\n: c\n? {x: 1}\n: d\n",
    "s: |\n  line1\n  line2\nf: >-\n  folded\n  text\n",
    "--- a\n--- b\n...\n--- {c: d}\n",
    "%YAML 1.2\n---\n!t &a {a: *a}\n",
    "a: &x {b: 1}\nc: {<<: *x, d: 2}\ne: *x\n",
    "s: \"esc \\x41 \\u00e9 \\U0001F600 \\\n  cont\"\nn: 'it''s'\n",
    "v: [0o17, 017, 1_000, .inf, -.INF, .nan, 1e3, 0x_1, +1, ~, null, yes, No, on]\n",
    "Unit\n",
    "New: {a: 1}\n",
    "St: {k1: 1, k2: 2}\n",
    "[1, \"x\"]\n",
    "t: [7, seven]\nc: x\ny: !!binary AAEC\nu: ~\nm: {a: b}\ne: {Tup: [1, 2]}\n",
    "a: deg(180)\nb: rad(pi/2)\nc: 1 + 2*(3 - 4/5)\nd: 12:30:15.5\n",
    "a:\n  - b:\n      - c: {d: [e, {f: g}]}\n",
    "\u{FEFF}a: b\r\nc: d\r\n",
    "é: ü\n\"k\": \u{1F600}\n",
    "a: 'unterminated\n",
    "a: [1, 2\nb: 3\n",
    "a: 1\na: 2\n",
    "{a: 1, a: 2, ? b : c, d}\n",
    "- - - a\n  - b\n- c\n",
    "a: !!int 12x\nb: !!float abc\nc: !!bool maybe\nd: !!null x\n",
    "k1: &a\nk2: *a\n",
    "*a\n",
    "&a [*a]\n",
    "<<: [*a, *b]\n",
    "a: \"\\ud800\"\n",
];

/// Documents from the vcore generator: random trees decorated with anchors,
/// aliases and merge keys, rendered block or flow with several layouts.
pub fn generated_docs(seed: u64, n: usize) -> Vec<Vec<u8>> {
    let mut out = Vec::with_capacity(n);
    for i in 0..n {
        let mut rng = Rng::stream(seed ^ 0xC01, i as u64);
        let mut counter = 0;
        let budget = rng.range(2, 30);
        let mut t = treegen::random_tree(&mut rng, budget, 5, LEAVES_BASIC, &mut counter);
        let names = ["a", "b", "c"];
        for _ in 0..rng.below(4) {
            let paths = treegen::node_paths(&t);
            let p = rng.pick(&paths).clone();
            let nd = treegen::node_at_mut(&mut t, &p);
            if !matches!(nd, Node::Alias(_)) {
                *nd = nd.clone().with_anchor(*rng.pick(&names));
            }
        }
        for _ in 0..rng.below(4) {
            let paths = treegen::node_paths(&t);
            let p = rng.pick(&paths).clone();
            if p.is_empty() {
                continue;
            }
            *treegen::node_at_mut(&mut t, &p) = Node::alias(*rng.pick(&names));
            if let Some((&last, parent)) = p.split_last()
                && last % 2 == 1
                && matches!(treegen::node_at(&t, parent), Node::Map { .. })
                && rng.chance(1, 3)
            {
                let mut kp = parent.to_vec();
                kp.push(last - 1);
                *treegen::node_at_mut(&mut t, &kp) = Node::plain("<<");
            }
        }
        if rng.chance(1, 3) {
            t.set_flow(true);
        }
        let ro = RenderOpts {
            indent: *rng.pick(&[1usize, 2, 4]),
            brk: *rng.pick(&["\n", "\n", "\r\n"]),
            compact: rng.bool(),
        };
        out.push(ydoc::render(&t, &ro).text.into_bytes());
    }
    out
}

/// Scalar spellings at the edges of the numeric / boolean / null / tagged
/// grammars (multi-byte characters right after a recognised prefix, empty digit
/// runs, overlong values), to be placed in typed contexts.
pub const EDGE_SCALARS: &[&str] = &[
    "00", "007", "00é", "00\u{1F600}", "0x", "0xg", "0xé", "0Xé", "0o8", "0oé", "0b2", "0b", "0bé", "-00", "+00é", "-0xé", "1_", "_1", "1__0",
    "0é", "-", "+", "-é", ".", "..", ".é", "1e", "1e+", "1eé", ".inf", ".infé", "-.iné", "-.é", "~é", "nullé", "trué", "yes", "é",
    "0x7FFFFFFFFFFFFFFFF", "99999999999999999999999", "-99999999999999999999999", "340282366920938463463374607431768211456", "1e400",
    "0.1é", "12:30", "12:é", "1:2:3:4", "-1:é", "!!int é", "!!int", "!!float é", "!!binary é", "!!binary =", "!!binary ====", "!!binary é===",
    "!!bool é", "!!null é", "!!str", "!!timestamp é", "deg(é)", "rad(", "(é", "1+é", "piй", "taué", "deg(1)é", "1 2", "'é", "\"\\xé\"",
    "\"\\u00\"", "\"\\U0011FFFF\"", "\"\\ud800\"", "\u{FEFF}", "a\u{FEFF}", "\u{85}", "\u{2028}x", "\u{7f}",
];

pub const EDGE_CONTEXTS: &[&str] = &[
    "@", "n: @", "f: @", "b: @", "c: @", "s: @", "v: [@]", "t: [@, @]", "y: @", "e: @", "m: {k: @}", "- @", "@: 1", "? @", "k1: @", "u: @",
    "New: @", "a: @", "<<: @", "- [@, 1]",
];

// ------------------------------------------------------------------ mutations

pub const MUTATIONS: [&str; 14] = [
    "flip-byte",
    "delete-span",
    "duplicate-span",
    "splice-two",
    "insert-token",
    "insert-invalid-utf8",
    "insert-lone-surrogate",
    "insert-nul",
    "insert-bom",
    "truncate",
    "utf16le-with-bom",
    "utf16be-bom-prefix",
    "indent-shift",
    "repeat-token-run",
];

const BAD_UTF8: [&[u8]; 8] = [
    &[0xFF],
    &[0xFE],
    &[0xC0, 0x80],
    &[0xE2, 0x82],
    &[0xF0, 0x9F, 0x98],
    &[0x80],
    &[0xF8, 0x88, 0x80, 0x80, 0x80],
    &[0xC3],
];
const SURROGATES: [&[u8]; 3] = [&[0xED, 0xA0, 0x80], &[0xED, 0xBF, 0xBF], &[0xED, 0xA0, 0x80, 0xED, 0xB0, 0x80]];

/// Apply mutation `kind` (index into MUTATIONS) to `doc`; `other` is a second
/// corpus document for splicing. Output is capped at `cap` bytes.
pub fn mutate(rng: &mut Rng, kind: usize, doc: &[u8], other: &[u8], cap: usize) -> Vec<u8> {
    let mut d = doc.to_vec();
    let pos = |rng: &mut Rng, d: &Vec<u8>| if d.is_empty() { 0 } else { rng.below(d.len() + 1) };
    match kind {
        0 => {
            if !d.is_empty() {
                let p = rng.below(d.len());
                d[p] ^= 1 << rng.below(8);
            }
        }
        1 => {
            if !d.is_empty() {
                let p = rng.below(d.len());
                let l = rng.range(1, 8.min(d.len() - p));
                d.drain(p..p + l);
            }
        }
        2 => {
            if !d.is_empty() {
                let p = rng.below(d.len());
                let l = rng.range(1, 24.min(d.len() - p));
                let span = d[p..p + l].to_vec();
                let times = rng.range(1, 6);
                let at = pos(rng, &d);
                for _ in 0..times {
                    d.splice(at..at, span.iter().copied());
                }
            }
        }
        3 => {
            let p = pos(rng, &d);
            let q = if other.is_empty() { 0 } else { rng.below(other.len()) };
            d.truncate(p);
            d.extend_from_slice(&other[q..]);
        }
        4 => {
            let t = *rng.pick(&ALPHABET);
            let p = pos(rng, &d);
            d.splice(p..p, t.bytes());
        }
        5 => {
            let t = *rng.pick(&BAD_UTF8);
            let p = pos(rng, &d);
            d.splice(p..p, t.iter().copied());
        }
        6 => {
            let t = *rng.pick(&SURROGATES);
            let p = pos(rng, &d);
            d.splice(p..p, t.iter().copied());
        }
        7 => {
            let p = pos(rng, &d);
            d.insert(p, 0);
        }
        8 => {
            let p = if rng.chance(1, 3) { 0 } else { pos(rng, &d) };
            d.splice(p..p, [0xEF, 0xBB, 0xBF]);
        }
        9 => {
            let p = pos(rng, &d);
            d.truncate(p);
        }
        10 => {
            let s = String::from_utf8_lossy(&d).into_owned();
            let mut o = vec![0xFF, 0xFE];
            for u in s.encode_utf16() {
                o.extend_from_slice(&u.to_le_bytes());
            }
            if rng.chance(1, 3) && o.len() > 3 {
                o.pop(); // odd length: truncated code unit
            }
            d = o;
        }
        11 => {
            let mut o = if rng.bool() { vec![0xFE, 0xFF] } else { vec![0xFF, 0xFE] };
            o.extend_from_slice(&d);
            d = o;
        }
        12 => {
            // shift the indentation of one line
            let starts: Vec<usize> =
                std::iter::once(0).chain(d.iter().enumerate().filter(|(_, b)| **b == b'\n').map(|(i, _)| i + 1)).collect();
            let p = *rng.pick(&starts);
            if rng.bool() {
                let ins = if rng.chance(1, 4) { b'\t' } else { b' ' };
                d.insert(p.min(d.len()), ins);
            } else if p < d.len() && d[p] == b' ' {
                d.remove(p);
            }
        }
        _ => {
            let t = *rng.pick(&ALPHABET);
            let p = pos(rng, &d);
            let n = rng.range(2, 300);
            let run: Vec<u8> = t.bytes().cycle().take(t.len() * n).collect();
            d.splice(p..p, run);
        }
    }
    d.truncate(cap);
    d
}

// ------------------------------------------------------------------ pathological inputs

#[derive(Clone, Debug)]
pub struct Patho {
    /// family used in signatures: block-nest | flow-nest | wide | docs | anchors | scalar | robotics-expr
    pub family: &'static str,
    pub shape: &'static str,
    pub param: usize,
    pub bytes: Vec<u8>,
}

pub const BLOCK_SHAPES: [&str; 7] =
    ["seq-inline", "map-lines", "seq-lines", "alternating", "complex-key", "anchored-map", "enum-payload"];
pub const FLOW_SHAPES: [&str; 5] = ["flow-seq", "flow-map", "flow-alternating", "flow-anchored", "flow-in-block"];

/// Block nesting: `depth` nested collections of the given shape (the innermost
/// one is an empty flow collection where the shape allows it, so that the typed
/// recursive targets can succeed).
pub fn block_nest(shape: &str, depth: usize) -> Vec<u8> {
    let mut s = String::new();
    let pad = |s: &mut String, n: usize| s.extend(std::iter::repeat_n(' ', n));
    let w = depth.saturating_sub(1);
    match shape {
        "seq-inline" => {
            for _ in 0..w {
                s.push_str("- ");
            }
            s.push_str("[]\n");
        }
        "seq-lines" => {
            for i in 0..w {
                pad(&mut s, i);
                s.push_str("-\n");
            }
            pad(&mut s, w);
            s.push_str("[]\n");
        }
        "map-lines" => {
            for i in 0..w {
                pad(&mut s, i);
                s.push_str("a:\n");
            }
            pad(&mut s, w);
            s.push_str("{}\n");
        }
        "alternating" => {
            // a:\n- a:\n  - a: …   (map, seq, map, seq …), innermost value a scalar
            s.push_str("a:\n");
            let mut d = 1;
            let mut i = 0;
            while d + 2 <= depth {
                pad(&mut s, 2 * i);
                s.push_str("- a:\n");
                d += 2;
                i += 1;
            }
            pad(&mut s, 2 * i);
            if d < depth {
                s.push_str("- x\n");
            } else {
                s.push_str(" x\n");
            }
        }
        "complex-key" => {
            for _ in 0..depth {
                s.push_str("? ");
            }
            s.push_str("a\n");
        }
        "anchored-map" => {
            for i in 0..w {
                pad(&mut s, i);
                s.push_str(&format!("a: &x{i}\n"));
            }
            pad(&mut s, w);
            s.push_str("{}\n");
        }
        "enum-payload" => {
            for i in 0..depth {
                pad(&mut s, i);
                s.push_str("New:\n");
            }
            pad(&mut s, depth);
            s.push_str("Unit\n");
        }
        _ => unreachable!("unknown block shape"),
    }
    s.into_bytes()
}

pub const ALIAS_SHAPES: [&str; 4] = ["alias-even", "alias-deep-anchor", "alias-deep-use", "alias-chain"];

fn dashes(s: &mut String, n: usize) {
    for _ in 0..n {
        s.push_str("- ");
    }
}

/// Literal counterpart of the alias-nest documents: `b:` followed by `total - 1`
/// nested block sequences (the innermost an empty flow sequence), i.e. a value of
/// total nesting depth `total` counting the root mapping.
pub fn alias_nest_literal(total: usize) -> Vec<u8> {
    let mut s = String::from("b:\n");
    dashes(&mut s, total.saturating_sub(2));
    s.push_str("[]\n");
    s.into_bytes()
}

/// Nesting depth composed through alias replay (block sequences; flow is capped
/// by the parser). `alias-even` / `alias-deep-anchor` / `alias-deep-use`: one
/// anchored nest of d1 sequences under key `a`, and under key `b` d2 sequences
/// around `*x`, with 1 (root mapping) + d2 + d1 = `param` total levels, split
/// evenly / 1990 in the anchor / 1990 at the use site. `alias-chain`: `param`
/// links, each 1990 sequences deep and ending in an alias to the previous one
/// (total depth 1 + 1990 x (param + 1)); every other default budget is respected.
pub fn alias_nest(shape: &str, param: usize) -> Vec<u8> {
    let mut s = String::new();
    match shape {
        "alias-chain" => {
            s.push_str("a0: &a0\n");
            dashes(&mut s, 1989);
            s.push_str("[]\n");
            for k in 1..=param {
                s.push_str(&format!("a{k}: &a{k}\n"));
                dashes(&mut s, 1990);
                s.push_str(&format!("*a{}\n", k - 1));
            }
        }
        _ => {
            let inner = param.saturating_sub(1); // d1 + d2
            let d1 = match shape {
                "alias-even" => inner / 2,
                "alias-deep-anchor" => inner.min(1990).max(inner.saturating_sub(1990)),
                _ => inner.saturating_sub(inner.min(1990)).max(1), // alias-deep-use
            }
            .clamp(1, inner.saturating_sub(1).max(1));
            let d2 = inner - d1;
            s.push_str("a: &x\n");
            dashes(&mut s, d1 - 1);
            s.push_str("[]\n");
            s.push_str("b:\n");
            dashes(&mut s, d2);
            s.push_str("*x\n");
        }
    }
    s.into_bytes()
}

/// Total nesting depth (counting the root mapping) that `alias_nest` composes.
pub fn alias_nest_total(shape: &str, param: usize) -> usize {
    if shape == "alias-chain" { 1 + 1990 * (param + 1) } else { param }
}

pub fn flow_nest(shape: &str, depth: usize) -> Vec<u8> {
    let mut s = String::new();
    match shape {
        "flow-seq" => {
            s.extend(std::iter::repeat_n('[', depth));
            s.extend(std::iter::repeat_n(']', depth));
        }
        "flow-map" => {
            for _ in 0..depth {
                s.push_str("{a: ");
            }
            s.push('1');
            s.extend(std::iter::repeat_n('}', depth));
        }
        "flow-alternating" => {
            let mut close = Vec::new();
            for i in 0..depth {
                if i % 2 == 0 {
                    s.push('[');
                    close.push(']');
                } else {
                    s.push_str("{a: ");
                    close.push('}');
                }
            }
            s.push('1');
            while let Some(c) = close.pop() {
                s.push(c);
            }
        }
        "flow-anchored" => {
            for i in 0..depth {
                s.push_str(&format!("&y{i} ["));
            }
            s.extend(std::iter::repeat_n(']', depth));
        }
        "flow-in-block" => {
            s.push_str("a:\n  - b: ");
            s.extend(std::iter::repeat_n('[', depth));
            s.extend(std::iter::repeat_n(']', depth));
        }
        _ => unreachable!("unknown flow shape"),
    }
    s.push('\n');
    s.into_bytes()
}

pub fn wide(shape: &str, n: usize) -> Vec<u8> {
    let mut s = String::with_capacity(n * 8);
    match shape {
        "wide-seq" => {
            for _ in 0..n {
                s.push_str("- a\n");
            }
        }
        "wide-map" => {
            for i in 0..n {
                s.push_str(&format!("k{i}: v\n"));
            }
        }
        "wide-flow-seq" => {
            s.push('[');
            for i in 0..n {
                if i > 0 {
                    s.push(',');
                }
                s.push('a');
            }
            s.push_str("]\n");
        }
        "wide-seq-of-maps" => {
            // n items, 3 nodes each
            for _ in 0..n {
                s.push_str("- a: 1\n");
            }
        }
        _ => unreachable!("unknown wide shape"),
    }
    s.into_bytes()
}

pub fn docs(n: usize, shape: &str) -> Vec<u8> {
    let mut s = String::new();
    for i in 0..n {
        match shape {
            "docs-scalar" => s.push_str("--- a\n"),
            "docs-end-markers" => s.push_str("a\n...\n"),
            _ => s.push_str(&format!("---\nk1: {i}\n")),
        }
    }
    s.into_bytes()
}

pub fn anchors(n: usize, shape: &str) -> Vec<u8> {
    let mut s = String::new();
    match shape {
        "anchors-only" => {
            for i in 0..n {
                s.push_str(&format!("- &a{i} x\n"));
            }
        }
        "anchor-alias-pairs" => {
            for i in 0..n {
                s.push_str(&format!("- &a{i} x\n- *a{i}\n"));
            }
        }
        "same-name-anchors" => {
            for _ in 0..n {
                s.push_str("- &a x\n");
            }
        }
        _ => {
            // one anchor, n aliases (trips the alias/anchor ratio heuristic)
            s.push_str("- &a x\n");
            for _ in 0..n {
                s.push_str("- *a\n");
            }
        }
    }
    s.into_bytes()
}

pub fn big_scalar(shape: &str, n: usize) -> Vec<u8> {
    let mut s = String::with_capacity(n + 64);
    match shape {
        "plain" => s.extend(std::iter::repeat_n('a', n)),
        "double-quoted" => {
            s.push('"');
            s.extend(std::iter::repeat_n('a', n));
            s.push('"');
        }
        "literal-block" => {
            s.push_str("|\n");
            for _ in 0..n / 64 {
                s.push_str(" aaaaaaaaaaaaaaaaaaaaaaaaaaaaaaaaaaaaaaaaaaaaaaaaaaaaaaaaaaaaaaaaaaaaaa\n");
            }
        }
        "unterminated-quote" => {
            s.push_str("k: \"");
            s.extend(std::iter::repeat_n('a', n));
        }
        "long-line-then-error" => {
            s.push_str("k: ");
            s.extend(std::iter::repeat_n('é', n / 2));
            s.push_str(" : : [\n");
        }
        "long-key-type-error" => {
            // a map where a (u8,String) / i64 is expected, on a very long line
            s.extend(std::iter::repeat_n('k', n));
            s.push_str(": {a: [}\n");
        }
        _ => unreachable!("unknown scalar shape"),
    }
    s.into_bytes()
}

pub fn robotics_expr(shape: &str, n: usize) -> Vec<u8> {
    let mut s = String::from("a: ");
    match shape {
        "unary-minus" => {
            s.extend(std::iter::repeat_n('-', n));
            s.push('1');
        }
        "parens" => {
            s.extend(std::iter::repeat_n('(', n));
            s.push('1');
            s.extend(std::iter::repeat_n(')', n));
        }
        "deg-calls" => {
            for _ in 0..n {
                s.push_str("deg(");
            }
            s.push('1');
            s.extend(std::iter::repeat_n(')', n));
        }
        "sum-chain" => {
            for _ in 0..n {
                s.push_str("1+");
            }
            s.push('1');
        }
        _ => {
            // digits
            s.extend(std::iter::repeat_n('9', n));
        }
    }
    s.push('\n');
    s.into_bytes()
}

pub fn hex(b: &[u8]) -> String {
    let mut s = String::with_capacity(b.len() * 2);
    for x in b {
        s.push_str(&format!("{x:02x}"));
    }
    s
}

pub fn unhex(s: &str) -> Vec<u8> {
    let b = s.as_bytes();
    let mut out = Vec::with_capacity(b.len() / 2);
    let v = |c: u8| match c {
        b'0'..=b'9' => c - b'0',
        b'a'..=b'f' => c - b'a' + 10,
        b'A'..=b'F' => c - b'A' + 10,
        _ => 0,
    };
    let mut i = 0;
    while i + 1 < b.len() {
        out.push(v(b[i]) << 4 | v(b[i + 1]));
        i += 2;
    }
    out
}
