//! Validated targets (garde and validator) for the rendering invariants of
//! `ValidationError(s)` / `ValidatorError(s)`. C18 judges *where* the issues point; here only
//! what the rendered report looks like matters.

use crate::cases::{Case, Chunked, Entry};
use serde::Deserialize;
use serde_saphyr::Error;
use std::collections::BTreeMap;
use vcore::Val;

fn one() -> i32 {
    1
}
fn ok() -> String {
    "ok".to_string()
}
fn al() -> String {
    "Al".to_string()
}

pub mod g {
    use super::*;
    use garde::Validate;

    /// custom rule whose message repeats the rejected value (what user code tends to do)
    fn reflecting(v: &String, _: &()) -> garde::Result {
        if v.starts_with("ok") { Ok(()) } else { Err(garde::Error::new(format!("note {v} rejected"))) }
    }

    #[derive(Debug, Deserialize, Validate)]
    pub struct Item {
        #[garde(range(min = 1, max = 10))]
        pub n: i32,
        #[garde(length(min = 2))]
        #[serde(default = "al")]
        pub name: String,
    }

    #[derive(Debug, Deserialize, Validate)]
    #[serde(rename_all = "camelCase")]
    pub struct Cfg {
        #[garde(skip)]
        #[serde(default)]
        #[allow(dead_code)]
        pub defs: Option<Val>,
        #[garde(length(min = 2))]
        #[serde(default = "al")]
        pub first_name: String,
        #[garde(custom(reflecting))]
        #[serde(default = "ok")]
        pub note: String,
        #[garde(range(min = 1))]
        #[serde(default = "one")]
        pub count: i32,
        #[garde(dive)]
        #[serde(default)]
        pub items: BTreeMap<String, Item>,
        #[garde(dive)]
        #[serde(default)]
        pub list: Vec<Item>,
    }
}

pub mod v {
    use super::*;
    use validator::{Validate, ValidationError};

    fn reflecting(v: &str) -> Result<(), ValidationError> {
        if v.starts_with("ok") {
            Ok(())
        } else {
            Err(ValidationError::new("note").with_message(format!("note {v} rejected").into()))
        }
    }

    #[derive(Debug, Deserialize, Validate)]
    pub struct Item {
        #[validate(range(min = 1, max = 10))]
        pub n: i32,
        #[validate(length(min = 2))]
        #[serde(default = "al")]
        pub name: String,
    }

    #[derive(Debug, Deserialize, Validate)]
    #[serde(rename_all = "camelCase")]
    pub struct Cfg {
        #[serde(default)]
        #[allow(dead_code)]
        pub defs: Option<Val>,
        #[validate(length(min = 2))]
        #[serde(default = "al")]
        pub first_name: String,
        #[validate(custom(function = "reflecting"))]
        #[serde(default = "ok")]
        pub note: String,
        #[validate(range(min = 1))]
        #[serde(default = "one")]
        pub count: i32,
        #[validate(nested)]
        #[serde(default)]
        pub items: BTreeMap<String, Item>,
        #[validate(nested)]
        #[serde(default)]
        pub list: Vec<Item>,
    }
}

pub fn execute_garde(c: &Case) -> Result<(), Error> {
    let o = c.options();
    let s = std::str::from_utf8(&c.input).unwrap_or("");
    match c.entry {
        Entry::Slice => serde_saphyr::from_slice_with_options_valid::<g::Cfg>(&c.input, o).map(|_| ()),
        Entry::Multi => serde_saphyr::from_multiple_with_options_valid::<g::Cfg>(s, o).map(|_| ()),
        Entry::Reader(k) | Entry::WithDeReader(k) => {
            serde_saphyr::from_reader_with_options_valid::<_, g::Cfg>(Chunked { data: &c.input, pos: 0, chunk: k }, o).map(|_| ())
        }
        Entry::ReadIter(k) => {
            let mut r = Chunked { data: &c.input, pos: 0, chunk: k };
            for item in serde_saphyr::read_with_options_valid::<_, g::Cfg>(&mut r, o).take(16) {
                item?;
            }
            Ok(())
        }
        _ => serde_saphyr::from_str_with_options_valid::<g::Cfg>(s, o).map(|_| ()),
    }
}

pub fn execute_validator(c: &Case) -> Result<(), Error> {
    let o = c.options();
    let s = std::str::from_utf8(&c.input).unwrap_or("");
    match c.entry {
        Entry::Slice => serde_saphyr::from_slice_with_options_validate::<v::Cfg>(&c.input, o).map(|_| ()),
        Entry::Multi => serde_saphyr::from_multiple_with_options_validate::<v::Cfg>(s, o).map(|_| ()),
        Entry::Reader(k) | Entry::WithDeReader(k) => {
            serde_saphyr::from_reader_with_options_validate::<_, v::Cfg>(Chunked { data: &c.input, pos: 0, chunk: k }, o).map(|_| ())
        }
        Entry::ReadIter(k) => {
            let mut r = Chunked { data: &c.input, pos: 0, chunk: k };
            for item in serde_saphyr::read_with_options_validate::<_, v::Cfg>(&mut r, o).take(16) {
                item?;
            }
            Ok(())
        }
        _ => serde_saphyr::from_str_with_options_validate::<v::Cfg>(s, o).map(|_| ()),
    }
}
