//! Oracle parts of C17: terminal-safety scan, parser for the snippet layouts the
//! crate emits, window / crop / caret checks against an independent model of
//! the input text.
//!
//! Layouts (learned from src/de/snippet.rs + annotate-snippets 0.12 `Renderer::plain()`
//! with `DecorStyle::Ascii`, `fold(false)`):
//!
//! primary window (annotate-snippets)
//! ```text
//! error: <prefix>: <msg>
//!  --> <path>:L:C
//!   |
//! N | <source line, tabs -> 4 spaces, ZWJ removed, bidi controls -> U+FFFD>
//!   | <pad>^ <msg>
//! N | …
//!   |
//! ```
//! secondary ("defined here") window, hand-written in
//! `fmt_snippet_window_with_mapping_or_fallback` (lines printed raw, caret placed by
//! *character count* behind a fixed `"  | "` gutter):
//! ```text
//! <l10n.value_comes_from_the_anchor(def)>
//!   |
//! N | <source line>
//!   | <pad>^ <label>
//!   |
//! ```
//! Anything the layouts do not pin down is reported as *unspecified*, never as a violation.

use unicode_width::UnicodeWidthChar;

pub fn forbidden(c: char) -> bool {
    let u = c as u32;
    (u < 0x20 && c != '\n' && c != '\t') || u == 0x7f || (0x80..=0x9f).contains(&u)
}

/// First forbidden character of every offending line: (line index, char).
pub fn forbidden_lines(text: &str) -> Vec<(usize, char)> {
    let mut out = Vec::new();
    for (i, l) in text.split('\n').enumerate() {
        if let Some(c) = l.chars().find(|c| forbidden(*c)) {
            out.push((i, c));
        }
    }
    out
}

/// Same width function annotate-snippets uses for placing annotations (after its own
/// replacement of control characters, so only the generic arm matters here).
pub fn cw(c: char) -> usize {
    match c {
        '\t' => 4,
        _ => UnicodeWidthChar::width(c).unwrap_or(1),
    }
}
pub fn sw(s: &str) -> usize {
    s.chars().map(cw).sum()
}

const BIDI: &[char] = &[
    '\u{202a}', '\u{202b}', '\u{202c}', '\u{202d}', '\u{202e}', '\u{2066}', '\u{2067}', '\u{2068}', '\u{2069}',
];

// ------------------------------------------------------------------ model of the input

pub struct SrcModel {
    pub lines: Vec<Vec<char>>,
    pub lone_cr: bool,
    pub inner_bom: bool,
    pub leading_bom: bool,
    pub empty: bool,
}

#[derive(Clone, Copy, Debug, PartialEq)]
pub enum Expect {
    Char(char),
    Eol,
    Outside,
}

impl SrcModel {
    pub fn new(text: &str) -> Self {
        let t = text.strip_prefix('\u{feff}').unwrap_or(text);
        let b = t.as_bytes();
        let mut lone_cr = false;
        for i in 0..b.len() {
            if b[i] == b'\r' && b.get(i + 1) != Some(&b'\n') {
                lone_cr = true;
                break;
            }
        }
        SrcModel {
            lines: t.split('\n').map(|l| l.strip_suffix('\r').unwrap_or(l).chars().collect()).collect(),
            lone_cr,
            inner_bom: t.contains('\u{feff}'),
            leading_bom: text.starts_with('\u{feff}'),
            empty: t.is_empty(),
        }
    }
    pub fn expect_at(&self, line: u64, col: u64) -> Expect {
        if self.empty || line == 0 || col == 0 {
            return Expect::Outside;
        }
        let Some(l) = self.lines.get(line as usize - 1) else {
            return Expect::Outside;
        };
        let c = col as usize;
        if c <= l.len() {
            Expect::Char(l[c - 1])
        } else if c == l.len() + 1 {
            Expect::Eol
        } else {
            Expect::Outside
        }
    }
    pub fn line_len(&self, n: usize) -> Option<usize> {
        self.lines.get(n.wrapping_sub(1)).map(|l| l.len())
    }
    pub fn line_tabs(&self, n: usize) -> usize {
        self.lines.get(n.wrapping_sub(1)).map(|l| l.iter().filter(|c| **c == '\t').count()).unwrap_or(0)
    }
}

/// What the crate's sanitiser (C0/DEL -> space, C1 -> NBSP) followed by the window
/// printer makes of one source character. `None` = the printer drops the character
/// (annotate-snippets removes ZWJ), so nothing can be said about the caret.
pub fn shown(c: char, raw_window: bool) -> Option<char> {
    let u = c as u32;
    let s = if (u < 0x20 && c != '\n' && c != '\t') || u == 0x7f {
        ' '
    } else if (0x80..=0x9f).contains(&u) {
        '\u{a0}'
    } else {
        c
    };
    if raw_window {
        return Some(s);
    }
    match s {
        '\t' => Some(' '),
        '\u{200d}' => None,
        x if BIDI.contains(&x) => Some('\u{fffd}'),
        x => Some(x),
    }
}

// ------------------------------------------------------------------ layout parser

#[derive(Debug, Clone)]
pub struct NumLine {
    pub n: usize,
    /// absolute display column (0-based) where the source text starts
    pub text_col: usize,
    pub text: String,
    /// gutter-only lines following this numbered line (raw, whole line)
    pub anns: Vec<String>,
}

/// `sep` is '|' for the crate's own renderings and '│' for miette's unicode theme.
fn parse_numbered(line: &str, sep: char) -> Option<NumLine> {
    let t = line.trim_start_matches(' ');
    let lead = line.len() - t.len();
    let digits: String = t.chars().take_while(|c| c.is_ascii_digit()).collect();
    if digits.is_empty() || digits.len() > 12 {
        return None;
    }
    let rest = &t[digits.len()..];
    let mut it = rest.chars();
    if it.next() != Some(' ') || it.next() != Some(sep) {
        return None;
    }
    let after = it.as_str();
    let text = after.strip_prefix(' ').unwrap_or(after);
    Some(NumLine {
        n: digits.parse().ok()?,
        text_col: lead + digits.len() + 3,
        text: text.to_string(),
        anns: Vec::new(),
    })
}

/// annotate-snippets can print the marker left of the gutter bar (`^ | label`) when it has
/// trimmed common leading white space that contains the annotated column.
fn marker_in_gutter(line: &str) -> bool {
    let t = line.trim_start_matches(' ');
    t.starts_with("^ |") || t.starts_with("^| ")
}

fn is_gutter(line: &str, seps: &[char]) -> bool {
    let t = line.trim_start_matches(' ');
    t.chars().next().map(|c| seps.contains(&c)).unwrap_or(false)
}

/// Split a rendering into windows of numbered lines. `intro` (the localizer's
/// "value comes from the anchor" line) separates the primary from the secondary window.
pub fn parse_windows(rendered: &str, intro: Option<&str>) -> Vec<Vec<NumLine>> {
    let mut wins: Vec<Vec<NumLine>> = Vec::new();
    let mut cur: Vec<NumLine> = Vec::new();
    for line in rendered.split('\n') {
        if let Some(i) = intro
            && line == i
        {
            wins.push(std::mem::take(&mut cur));
            continue;
        }
        if let Some(nl) = parse_numbered(line, '|') {
            cur.push(nl);
        } else if (is_gutter(line, &['|']) || marker_in_gutter(line))
            && let Some(last) = cur.last_mut()
        {
            last.anns.push(line.to_string());
        }
    }
    wins.push(cur);
    if intro.is_none() || wins.len() == 1 {
        wins.retain(|w| !w.is_empty());
    }
    wins
}

/// miette (unicode theme, no colour): ` N │ text` / `   · ──┬──` / `   ·   ╰── label`.
/// A report can have several `╭─[` blocks; each is one window.
pub fn parse_miette(rendered: &str) -> Vec<Vec<NumLine>> {
    let mut wins: Vec<Vec<NumLine>> = Vec::new();
    let mut cur: Vec<NumLine> = Vec::new();
    for line in rendered.split('\n') {
        let t = line.trim_start_matches(' ');
        if t.starts_with("╭─[") || t.starts_with("╭────") || t.starts_with("╰────") {
            if !cur.is_empty() {
                wins.push(std::mem::take(&mut cur));
            }
            continue;
        }
        if let Some(nl) = parse_numbered(line, '│') {
            cur.push(nl);
        } else if is_gutter(line, &['·'])
            && let Some(last) = cur.last_mut()
        {
            last.anns.push(line.to_string());
        }
    }
    if !cur.is_empty() {
        wins.push(cur);
    }
    wins
}

// ------------------------------------------------------------------ window checks

#[derive(Debug)]
pub enum Verdict {
    /// signature suffix (after `C17:`), detail
    Violation(String, String),
    Unspecified(&'static str),
    Held(&'static str),
}

pub struct WinCtx<'a> {
    pub src: &'a SrcModel,
    pub line: u64,
    pub col: u64,
    pub radius: usize,
    /// secondary hand-written window (raw lines, caret by character count)
    pub raw_window: bool,
    /// reader entry point and the input is larger than the recent-bytes ring
    pub ring_may_have_evicted: bool,
    /// reader entry point (window comes from the recent-bytes ring)
    pub reader: bool,
    /// label used in signatures: "primary-window" / "defined-here-window"
    pub name: &'static str,
}

fn chars_at_col(nl: &NumLine, col: usize) -> (Vec<char>, usize) {
    let mut pos = nl.text_col;
    let mut out = Vec::new();
    for c in nl.text.chars() {
        let w = cw(c);
        if pos == col {
            out.push(c);
            if w > 0 {
                break;
            }
        }
        if pos > col {
            break;
        }
        pos += w;
    }
    let total = nl.text_col + sw(&nl.text);
    (out, total)
}

pub fn check_window(win: &[NumLine], ctx: &WinCtx) -> Vec<Verdict> {
    let mut v = Vec::new();
    let name = ctx.name;
    if ctx.src.lone_cr {
        // the parser counts a bare CR as a line break, the snippet code does not: line numbers of
        // the report and of the model differ (named unspecified in DESIGN); only the height is judged
        if win.len() > 5 {
            v.push(Verdict::Violation(
                format!("window-too-tall:{name}"),
                format!("{} numbered source lines shown (documented: error line +-2)", win.len()),
            ));
        }
        v.push(Verdict::Unspecified("cr-only-line-breaks"));
        return v;
    }
    // 1. height
    if win.len() > 5 {
        v.push(Verdict::Violation(
            format!("window-too-tall:{name}"),
            format!("{} numbered source lines shown (documented: error line +-2)", win.len()),
        ));
    } else {
        v.push(Verdict::Held("window-height"));
    }
    // 2. numbers within +-2 and distinct
    let mut seen = std::collections::BTreeSet::new();
    let mut bad_no = false;
    for nl in win {
        let d = (nl.n as i128 - ctx.line as i128).abs();
        if d > 2 || !seen.insert(nl.n) {
            bad_no = true;
            v.push(Verdict::Violation(
                format!("line-number-outside-window:{name}"),
                format!("numbered line {} shown for location line {}", nl.n, ctx.line),
            ));
            break;
        }
    }
    if !bad_no {
        v.push(Verdict::Held("line-numbers"));
    }
    // 3. crop width of every line
    if ctx.radius < (1 << 40) {
        let r = ctx.radius;
        let col = ctx.col as usize;
        let left_col = col.saturating_sub(r).max(1);
        for nl in win {
            let shown_chars = nl.text.chars().count();
            let tabs = if ctx.raw_window { 0 } else { ctx.src.line_tabs(nl.n) };
            let bound = 2 * r + 1 + 2 + 3 * tabs;
            if shown_chars <= bound {
                v.push(Verdict::Held("crop-width"));
                continue;
            }
            // context lines lying wholly left of the crop window are documented (in the
            // source) to be kept intact; the property text does not say either way.
            if nl.n as u64 != ctx.line
                && let Some(len) = ctx.src.line_len(nl.n)
                && len < left_col
            {
                v.push(Verdict::Unspecified("context-line-left-of-crop-window"));
                continue;
            }
            if ctx.src.line_len(nl.n).is_none() {
                v.push(Verdict::Unspecified("numbered-line-beyond-model"));
                continue;
            }
            // reader window: its last line may stop before the real end of the line and its first
            // line may start after the real start, so "short line left of the crop window" (kept
            // intact by design) cannot be told apart from the model of the full line
            if ctx.reader && nl.n as u64 != ctx.line {
                let first = win.first().map(|f| f.n) == Some(nl.n);
                let last = win.last().map(|f| f.n) == Some(nl.n);
                if last || (first && ctx.ring_may_have_evicted) {
                    v.push(Verdict::Unspecified("crop-width/reader-window-edge-line-may-be-partial"));
                    continue;
                }
            }
            v.push(Verdict::Violation(
                format!("line-wider-than-crop-window:{name}"),
                format!(
                    "line {} shown with {} chars, crop radius {} allows {} (+ellipses, tabs={})",
                    nl.n, shown_chars, r, 2 * r + 1, tabs
                ),
            ));
        }
    }
    // 4. the error line is there
    let Some(el) = win.iter().find(|nl| nl.n as u64 == ctx.line) else {
        // A location on the empty line that follows the final line break: annotate-snippets
        // does not print that line and puts the marker at the end of the line before it.
        // Whether that counts as "the line the location refers to" is not pinned down.
        if ctx.line as usize == ctx.src.lines.len()
            && ctx.line >= 2
            && ctx.src.lines.last().map(|l| l.is_empty()).unwrap_or(false)
            && win.iter().any(|nl| nl.n as u64 + 1 == ctx.line)
        {
            v.push(Verdict::Unspecified("location-on-empty-line-after-final-break"));
            return v;
        }
        v.push(Verdict::Violation(
            format!("error-line-missing:{name}"),
            format!(
                "location line {} not among shown lines {:?}",
                ctx.line,
                win.iter().map(|l| l.n).collect::<Vec<_>>()
            ),
        ));
        return v;
    };
    v.push(Verdict::Held("error-line-present"));
    // 4b. what is shown under that number really is (a crop of) that line of the input
    if !ctx.src.lone_cr && !ctx.src.inner_bom {
        if let Some(model) = ctx.src.lines.get(ctx.line as usize - 1) {
            let mut m = String::with_capacity(model.len());
            for c in model {
                match (*c, ctx.raw_window) {
                    ('\t', false) => m.push_str("    "),
                    (c, raw) => {
                        if let Some(s) = shown(c, raw) {
                            m.push(s)
                        }
                    }
                }
            }
            // annotate-snippets trims lines wider than its 140 columns with "..." (not always at
            // the very end when zero-width characters follow) and may pad where it cuts through a
            // wide character: compare the pieces between such cuts, leaving a margin next to a cut
            let pieces: Vec<&str> = el.text.split("...").collect();
            let np = pieces.len();
            let mut ok = true;
            for (pi, piece) in pieces.iter().enumerate() {
                let mut cs: Vec<char> = piece.chars().collect();
                if pi > 0 {
                    cs.drain(..cs.len().min(4));
                }
                if pi + 1 < np {
                    let keep = cs.len().saturating_sub(4);
                    cs.truncate(keep);
                }
                let core: String = cs.into_iter().collect();
                let core = core.trim_matches('\u{2026}');
                if !m.contains(core) {
                    ok = false;
                    break;
                }
            }
            if ok {
                v.push(Verdict::Held("error-line-content"));
            } else {
                v.push(Verdict::Violation(
                    format!("error-line-content-mismatch:{name}"),
                    format!("line {} is shown as {:?}, which is not a crop of input line {:?}", el.n, el.text, m.chars().take(300).collect::<String>()),
                ));
                return v;
            }
        }
    }
    // 5. caret
    // reader window that starts inside the error line (the start of the line was evicted from
    // the ring): the crate maps the column into the remaining tail of the line
    let ring_partial = ctx.ring_may_have_evicted && win.first().map(|f| f.n) == Some(el.n);
    let Some(ann) = el.anns.iter().find(|a| a.contains('^')) else {
        v.push(Verdict::Violation(
            if ring_partial { format!("caret-misplaced:{name}:window-starts-inside-line") } else { format!("caret-missing:{name}") },
            format!("no '^' marker under line {}", el.n),
        ));
        return v;
    };
    if ctx.src.lone_cr {
        v.push(Verdict::Unspecified("caret/cr-only-line-breaks"));
        return v;
    }
    if ctx.src.inner_bom {
        v.push(Verdict::Unspecified("caret/bom-inside-text"));
        return v;
    }
    let before = &ann[..ann.find('^').unwrap()];
    let caret_col = sw(before);
    let (under, total) = chars_at_col(el, caret_col);
    let exp = ctx.src.expect_at(ctx.line, ctx.col);
    let ok_display = match exp {
        Expect::Outside => {
            v.push(Verdict::Unspecified("caret/location-outside-text"));
            return v;
        }
        Expect::Eol => caret_col == total,
        Expect::Char(c) => match shown(c, ctx.raw_window) {
            None => {
                v.push(Verdict::Unspecified("caret/char-dropped-by-printer"));
                return v;
            }
            Some(s) => under.contains(&s),
        },
    };
    if ok_display {
        v.push(Verdict::Held("caret"));
        return v;
    }
    let detail = format!(
        "location {}:{} expects {:?}; marker at display column {} is under {:?} in shown line {:?} (marker line {:?})",
        ctx.line, ctx.col, exp, caret_col as i64 - el.text_col as i64, under, el.text, ann
    );
    if caret_col < el.text_col {
        v.push(Verdict::Violation(format!("caret-misplaced:{name}:marker-in-gutter"), detail));
        return v;
    }
    if ctx.raw_window {
        // Classify the known ways the hand-written window goes wrong. Its marker line always has
        // the 4-column gutter "  | " and pads by *character count*.
        let want: Option<char> = match exp {
            Expect::Char(c) => shown(c, true),
            _ => None,
        };
        let pad_chars = before.chars().count().saturating_sub(4);
        let by_char_count = match (want, exp) {
            (Some(w), _) => el.text.chars().nth(pad_chars) == Some(w),
            (None, Expect::Eol) => el.text.chars().count() == pad_chars,
            _ => false,
        };
        if by_char_count && el.text_col != 4 {
            // right character by count, but the numbered lines have a wider gutter than the marker line
            v.push(Verdict::Violation(format!("caret-misplaced:{name}:gutter-width"), detail));
        } else if by_char_count && el.text.contains('\t') {
            v.push(Verdict::Unspecified("caret/raw-tab-before-marker"));
        } else if by_char_count {
            // right character by count, wrong display column: wide / zero-width characters before it
            v.push(Verdict::Violation(format!("caret-misplaced:{name}:wide-or-zero-width-prefix"), detail));
        } else if ring_partial {
            v.push(Verdict::Violation(format!("caret-misplaced:{name}:window-starts-inside-line"), detail));
        } else {
            v.push(Verdict::Violation(format!("caret-misplaced:{name}"), detail));
        }
    } else if ring_partial {
        v.push(Verdict::Violation(format!("caret-misplaced:{name}:window-starts-inside-line"), detail));
    } else {
        v.push(Verdict::Violation(format!("caret-misplaced:{name}"), detail));
    }
    v
}

/// miette: the first of `─ ┬ ▲` on the marker line under the numbered line.
/// `also`: lines of the error's other locations (a label there is expected).
pub fn check_miette_marker(wins: &[Vec<NumLine>], src: &SrcModel, line: u64, col: u64, also: &[u64]) -> Verdict {
    let Some(el) = wins.iter().flatten().find(|nl| nl.n as u64 == line && nl.anns.iter().any(|a| a.contains(['─', '┬', '▲']))) else {
        if src.lone_cr || src.inner_bom {
            return Verdict::Unspecified("miette/cr-or-bom");
        }
        // A single-line label (`┬` / `▲` marker) under some other line while the line of the
        // location carries none: the report points at the wrong line. (Reports without any
        // simple marker - no label, or a span drawn over several lines - say nothing here.)
        let simple = |nl: &NumLine| nl.anns.first().map(|a| a.contains(['┬', '▲'])).unwrap_or(false);
        let multi_line_glyphs = wins.iter().flatten().any(|nl| nl.text.starts_with(['╭', '├', '╰', '│']));
        if !multi_line_glyphs
            && let Some(other) = wins.iter().flatten().find(|nl| nl.n as u64 != line && simple(nl))
            && !also.contains(&(other.n as u64))
            && src.expect_at(line, col) != Expect::Outside
        {
            // label on the line break that ends the previous line, location at column 1 of the
            // next one: the same point of the text seen from both sides
            if col == 1 && other.n as u64 + 1 == line {
                let ann = other.anns.first().map(|a| a.as_str()).unwrap_or("");
                if let Some(i) = ann.find(['┬', '▲', '─']) {
                    let at = sw(&ann[..i]);
                    let end = chars_at_col(other, 0).1;
                    if at + 1 >= end {
                        return Verdict::Unspecified("miette/label-on-line-break-before-location");
                    }
                }
            }
            if line as usize == src.lines.len() && line >= 2 && src.lines.last().map(|l| l.is_empty()).unwrap_or(false) {
                // the location is the empty line after the final break: nothing can be marked there
                return Verdict::Unspecified("miette/location-on-empty-line-after-final-break");
            }
            return Verdict::Violation(
                "miette-marker-misplaced:other-line".into(),
                format!("the error reports {line}:{col}, the label is under line {} ({:?})", other.n, other.text.chars().take(80).collect::<String>()),
            );
        }
        if wins.iter().flatten().any(|nl| nl.n as u64 == line) {
            return Verdict::Unspecified("miette/no-marker-line");
        }
        return Verdict::Unspecified("miette/error-line-not-shown");
    };
    if src.lone_cr || src.inner_bom {
        return Verdict::Unspecified("miette/cr-or-bom");
    }
    let ann = el.anns.iter().find(|a| a.contains(['─', '┬', '▲'])).unwrap();
    // a line can carry several labels (use site and anchor on one line): every maximal run of
    // marker characters starts one; the location must be under the start of one of them
    let mut runs: Vec<usize> = Vec::new();
    {
        let mut colpos = 0usize;
        let mut in_run = false;
        for ch in ann.chars() {
            let m = matches!(ch, '─' | '┬' | '▲');
            if m && !in_run {
                runs.push(colpos);
            }
            in_run = m;
            colpos += cw(ch);
        }
    }
    let total = chars_at_col(el, 0).1;
    let mut under: Vec<char> = Vec::new();
    let mut caret_col = runs[0];
    for r in &runs {
        let (u, _) = chars_at_col(el, *r);
        under.extend(u);
        caret_col = *r;
    }
    let caret_first = runs[0];
    match src.expect_at(line, col) {
        Expect::Outside => Verdict::Unspecified("miette/location-outside-text"),
        Expect::Eol => {
            let caret_col = caret_col.max(caret_first);
            if caret_col >= total.saturating_sub(1) {
                Verdict::Held("miette-marker")
            } else {
                Verdict::Violation(
                    "miette-marker-misplaced".into(),
                    format!("{line}:{col} is end of line; marker at {} of {:?}", caret_col as i64 - el.text_col as i64, el.text),
                )
            }
        }
        Expect::Char(c) => {
            // miette prints the (sanitised) source itself; tabs become spaces
            let s = match shown(c, true) {
                Some('\t') => ' ',
                Some(x) => x,
                None => return Verdict::Unspecified("miette/char"),
            };
            if el.text.chars().any(|c| cw(c) != 1) || el.text.contains('\t') || src.line_tabs(el.n) > 0 {
                // miette's own width handling is not the crate's business
                if under.contains(&s) {
                    return Verdict::Held("miette-marker");
                }
                return Verdict::Unspecified("miette/non-unit-width-line");
            }
            if under.contains(&s) {
                Verdict::Held("miette-marker")
            } else {
                let multibyte_before = src
                    .lines
                    .iter()
                    .take(line as usize)
                    .any(|l| l.iter().any(|c| c.len_utf8() > 1));
                Verdict::Violation(
                    if src.leading_bom {
                        "miette-marker-misplaced:leading-bom".into()
                    } else if multibyte_before {
                        "miette-marker-misplaced:multibyte-before-error".into()
                    } else {
                        "miette-marker-misplaced".into()
                    },
                    format!(
                        "{line}:{col} expects {c:?}; marker at {} is under {:?} in {:?}",
                        caret_col as i64 - el.text_col as i64,
                        under,
                        el.text
                    ),
                )
            }
        }
    }
}

pub fn is_numbered(line: &str, sep: char) -> bool {
    parse_numbered(line, sep).is_some()
}


// ------------------------------------------------------------------ multi-issue reports

/// One snippet window of a report that renders several issues (validation errors): the
/// location it claims (from the title line `error: <prefix>: …` or from the localizer's
/// "value comes from the anchor" line) and its numbered lines.
#[derive(Debug)]
pub struct Block {
    pub line: u64,
    pub col: u64,
    /// hand-written secondary window
    pub raw: bool,
    pub lines: Vec<NumLine>,
}

fn two_numbers(s: &str, a: &str, b: &str, end: &str) -> Option<(u64, u64)> {
    let r = s.strip_prefix(a)?;
    let d1: String = r.chars().take_while(|c| c.is_ascii_digit()).collect();
    let r = r[d1.len()..].strip_prefix(b)?;
    let d2: String = r.chars().take_while(|c| c.is_ascii_digit()).collect();
    if !r[d2.len()..].starts_with(end) || d1.is_empty() || d2.is_empty() {
        return None;
    }
    Some((d1.parse().ok()?, d2.parse().ok()?))
}

/// `spanish` selects the wording of the check's own custom localizer.
pub fn parse_blocks(rendered: &str, spanish: bool) -> Vec<Block> {
    let (t_a, t_b) = if spanish { ("error: l\u{ed}nea ", " columna ") } else { ("error: line ", " column ") };
    let (i_a, i_b) = if spanish {
        ("  | el valor viene del ancla en l\u{ed}nea ", " columna ")
    } else {
        ("  | This value comes indirectly from the anchor at line ", " column ")
    };
    let mut out: Vec<Block> = Vec::new();
    let mut open = false;
    for line in rendered.split('\n') {
        if let Some((l, c)) = two_numbers(line, t_a, t_b, ":") {
            out.push(Block { line: l, col: c, raw: false, lines: Vec::new() });
            open = true;
            continue;
        }
        if let Some((l, c)) = two_numbers(line, i_a, i_b, ":") {
            out.push(Block { line: l, col: c, raw: true, lines: Vec::new() });
            open = true;
            continue;
        }
        if !open {
            continue;
        }
        if let Some(nl) = parse_numbered(line, '|') {
            out.last_mut().unwrap().lines.push(nl);
        } else if is_gutter(line, &['|']) || marker_in_gutter(line) {
            if let Some(last) = out.last_mut().unwrap().lines.last_mut() {
                last.anns.push(line.to_string());
            }
        } else if line.trim_start().starts_with("-->") {
        } else {
            // blank separator or a plain (fallback) message: the window is over
            open = false;
        }
    }
    out
}


/// The adapter adds ` (column N)` to a label whose line it cropped (miette's own header column
/// then refers to the cropped text): N must be a column the error reports.
/// `eol_cols`: for a location at column 1, the end-of-line column of the line before it (the
/// line break seen from the other side).
pub fn check_miette_column_notes(rendered: &str, cols: &[u64], eol_cols: &[u64]) -> Verdict {
    let mut seen = false;
    for line in rendered.split('\n') {
        let mut rest = line;
        while let Some(i) = rest.find(" (column ") {
            let tail = &rest[i + 9..];
            let digits: String = tail.chars().take_while(|c| c.is_ascii_digit()).collect();
            if !digits.is_empty() && tail[digits.len()..].starts_with(')') {
                seen = true;
                let n: u64 = digits.parse().unwrap_or(0);
                if !cols.contains(&n) && !eol_cols.contains(&n) {
                    return Verdict::Violation(
                        "miette-column-note-wrong".into(),
                        format!("label says column {n}, the error reports column(s) {cols:?}: {line:?}"),
                    );
                }
            }
            rest = tail;
        }
    }
    if seen { Verdict::Held("miette-column-note") } else { Verdict::Held("miette-no-column-note") }
}

/// Number of leading white-space characters shared by all non-blank numbered lines. The
/// annotate-snippets renderer trims such a margin beyond 20 columns, so a window that shows a
/// deeper one was printed by the crate's own plain window printer (raw lines, no tab expansion).
pub fn shared_leading_ws(win: &[NumLine]) -> usize {
    win.iter()
        .filter(|l| !l.text.trim().is_empty())
        .map(|l| l.text.chars().take_while(|c| c.is_whitespace()).count())
        .min()
        .unwrap_or(0)
}
