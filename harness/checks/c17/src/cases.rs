//! Case description, target family, entry points (everything through the public API).

use serde::Deserialize;
use serde::de::DeserializeOwned;
use serde_json::{Value, json};
use serde_saphyr::{Error, Options};
use std::collections::BTreeMap;
use vcore::Val;

#[derive(Clone, Copy, Debug, PartialEq, Eq)]
pub enum Entry {
    Str,
    Slice,
    Multi,
    WithDeStr,
    Reader(usize),
    ReadIter(usize),
    WithDeReader(usize),
}

impl Entry {
    pub fn name(self) -> &'static str {
        match self {
            Entry::Str => "from_str",
            Entry::Slice => "from_slice",
            Entry::Multi => "from_multiple",
            Entry::WithDeStr => "with_deserializer_from_str",
            Entry::Reader(_) => "from_reader",
            Entry::ReadIter(_) => "read_iter",
            Entry::WithDeReader(_) => "with_deserializer_from_reader",
        }
    }
    pub fn chunk(self) -> usize {
        match self {
            Entry::Reader(c) | Entry::ReadIter(c) | Entry::WithDeReader(c) => c,
            _ => 0,
        }
    }
    pub fn from_name(n: &str, chunk: usize) -> Entry {
        match n {
            "from_slice" => Entry::Slice,
            "from_multiple" => Entry::Multi,
            "with_deserializer_from_str" => Entry::WithDeStr,
            "from_reader" => Entry::Reader(chunk.max(1)),
            "read_iter" => Entry::ReadIter(chunk.max(1)),
            "with_deserializer_from_reader" => Entry::WithDeReader(chunk.max(1)),
            _ => Entry::Str,
        }
    }
    /// string entry points: the whole text is at hand when the error is wrapped
    pub fn is_string(self) -> bool {
        matches!(self, Entry::Str | Entry::Slice | Entry::Multi | Entry::WithDeStr)
    }
}

pub const F_NO_SCHEMA: u8 = 1;
pub const F_ANGLE: u8 = 2;
pub const F_STRICT_BOOL: u8 = 4;
/// the generator put a line break into text that a message reflects: layout not parseable
pub const F_MULTILINE: u8 = 8;

#[derive(Clone, Debug)]
pub struct Case {
    /// bytes handed to the entry point
    pub input: Vec<u8>,
    /// the text those bytes encode (== input for UTF-8); None if not decodable
    pub text: Option<String>,
    /// "utf8" | "utf16le" | "utf16be"
    pub enc: &'static str,
    pub target: &'static str,
    pub entry: Entry,
    pub radius: usize,
    pub with_snippet: bool,
    pub flags: u8,
    /// workload family, only for counters
    pub family: &'static str,
}

impl Case {
    pub fn new(text: &str, target: &'static str, family: &'static str) -> Case {
        Case {
            input: text.as_bytes().to_vec(),
            text: Some(text.to_string()),
            enc: "utf8",
            target,
            entry: Entry::Str,
            radius: 64,
            with_snippet: true,
            flags: 0,
            family,
        }
    }
    pub fn options(&self) -> Options {
        let mut o = Options::default();
        #[allow(deprecated)]
        {
            o.crop_radius = self.radius;
            o.with_snippet = self.with_snippet;
            o.no_schema = self.flags & F_NO_SCHEMA != 0;
            o.angle_conversions = self.flags & F_ANGLE != 0;
            o.strict_booleans = self.flags & F_STRICT_BOOL != 0;
        }
        o
    }
    pub fn to_json(&self) -> Value {
        let hex: String = self.input.iter().map(|b| format!("{b:02x}")).collect();
        json!({
            "input": String::from_utf8_lossy(&self.input),
            "input_hex": hex,
            "enc": self.enc,
            "target": self.target,
            "entry": self.entry.name(),
            "chunk": self.entry.chunk(),
            "radius": self.radius,
            "with_snippet": self.with_snippet,
            "flags": self.flags,
            "family": self.family,
        })
    }
    pub fn from_json(v: &Value) -> Option<Case> {
        let hex = v["input_hex"].as_str()?;
        let mut input = Vec::with_capacity(hex.len() / 2);
        let hb = hex.as_bytes();
        let mut i = 0;
        while i + 1 < hb.len() {
            input.push(u8::from_str_radix(std::str::from_utf8(&hb[i..i + 2]).ok()?, 16).ok()?);
            i += 2;
        }
        let enc: &'static str = match v["enc"].as_str().unwrap_or("utf8") {
            "utf16le" => "utf16le",
            "utf16be" => "utf16be",
            _ => "utf8",
        };
        let text = decode(&input, enc);
        let tn = v["target"].as_str().unwrap_or("MapI32");
        let target = TARGETS.iter().find(|t| **t == tn).copied().unwrap_or("MapI32");
        Some(Case {
            input,
            text,
            enc,
            target,
            entry: Entry::from_name(v["entry"].as_str().unwrap_or("from_str"), v["chunk"].as_u64().unwrap_or(1) as usize),
            radius: v["radius"].as_u64().unwrap_or(64) as usize,
            with_snippet: v["with_snippet"].as_bool().unwrap_or(true),
            flags: v["flags"].as_u64().unwrap_or(0) as u8,
            family: "replay",
        })
    }
    pub fn hash(&self) -> u64 {
        vcore::fnv_parts(&[
            &self.input,
            self.target.as_bytes(),
            self.entry.name().as_bytes(),
            &self.entry.chunk().to_le_bytes(),
            &self.radius.to_le_bytes(),
            &[self.with_snippet as u8, self.flags],
        ])
    }
}

pub fn decode(input: &[u8], enc: &str) -> Option<String> {
    match enc {
        "utf8" => String::from_utf8(input.to_vec()).ok(),
        "utf16le" | "utf16be" => {
            let b = input.strip_prefix(if enc == "utf16le" { &[0xff, 0xfe][..] } else { &[0xfe, 0xff][..] })?;
            let units: Vec<u16> = b
                .chunks(2)
                .filter(|c| c.len() == 2)
                .map(|c| if enc == "utf16le" { u16::from_le_bytes([c[0], c[1]]) } else { u16::from_be_bytes([c[0], c[1]]) })
                .collect();
            String::from_utf16(&units).ok()
        }
        _ => None,
    }
}

pub fn encode_utf16(text: &str, le: bool) -> Vec<u8> {
    let mut out = if le { vec![0xff, 0xfe] } else { vec![0xfe, 0xff] };
    for u in text.encode_utf16() {
        out.extend_from_slice(&if le { u.to_le_bytes() } else { u.to_be_bytes() });
    }
    out
}

// ------------------------------------------------------------------ targets

#[derive(Debug, Deserialize)]
#[serde(deny_unknown_fields)]
#[allow(dead_code)]
pub struct Inner {
    pub k1: i32,
}

#[derive(Debug, Deserialize)]
#[allow(dead_code)]
pub enum En {
    A,
    B(i32),
    C { x: i32 },
}

/// Always fails with a message that reflects the scalar it was given (what a
/// `TryFrom<String>`-style validation in user code typically does).
#[derive(Debug)]
pub struct Custom;
impl<'de> Deserialize<'de> for Custom {
    fn deserialize<D: serde::Deserializer<'de>>(d: D) -> Result<Self, D::Error> {
        let s = String::deserialize(d)?;
        Err(serde::de::Error::custom(format!("bad value {s}")))
    }
}

#[derive(Debug, Deserialize)]
#[serde(deny_unknown_fields)]
#[allow(dead_code)]
pub struct Strict {
    #[serde(default)]
    pub k1: Option<String>,
    #[serde(default)]
    pub k2: Option<i64>,
    #[serde(default)]
    pub f: Option<f64>,
    #[serde(default)]
    pub c: Option<char>,
    #[serde(default)]
    pub b: Option<bool>,
    #[serde(default)]
    pub e: Option<En>,
    #[serde(default)]
    pub h: Option<Inner>,
    #[serde(default)]
    pub v: Option<Val>,
    #[serde(default)]
    pub cu: Option<Custom>,
    #[serde(default)]
    pub t: Option<(u8, String)>,
    #[serde(default)]
    pub l: Vec<i32>,
}

pub const TARGETS: &[&str] = &["MapI32", "Strict", "En", "VecString", "TupU8Str", "String", "Val", "VecI32", "StrRef", "GCfg", "VCfg"];

pub struct Chunked<'a> {
    pub data: &'a [u8],
    pub pos: usize,
    pub chunk: usize,
}
impl std::io::Read for Chunked<'_> {
    fn read(&mut self, buf: &mut [u8]) -> std::io::Result<usize> {
        let n = self.chunk.max(1).min(buf.len()).min(self.data.len() - self.pos);
        buf[..n].copy_from_slice(&self.data[self.pos..self.pos + n]);
        self.pos += n;
        Ok(n)
    }
}

fn go<T: DeserializeOwned>(c: &Case) -> Result<(), Error> {
    let o = c.options();
    let as_str = || std::str::from_utf8(&c.input).unwrap_or("");
    match c.entry {
        Entry::Str => serde_saphyr::from_str_with_options::<T>(as_str(), o).map(|_| ()),
        Entry::Slice => serde_saphyr::from_slice_with_options::<T>(&c.input, o).map(|_| ()),
        Entry::Multi => serde_saphyr::from_multiple_with_options::<T>(as_str(), o).map(|_| ()),
        Entry::WithDeStr => serde_saphyr::with_deserializer_from_str_with_options(as_str(), o, |de| T::deserialize(de)).map(|_| ()),
        Entry::Reader(k) => {
            serde_saphyr::from_reader_with_options::<_, T>(Chunked { data: &c.input, pos: 0, chunk: k }, o).map(|_| ())
        }
        Entry::ReadIter(k) => {
            let mut r = Chunked { data: &c.input, pos: 0, chunk: k };
            let it = serde_saphyr::read_with_options::<_, T>(&mut r, o);
            for item in it.take(16) {
                item?;
            }
            Ok(())
        }
        Entry::WithDeReader(k) => {
            serde_saphyr::with_deserializer_from_reader_with_options(Chunked { data: &c.input, pos: 0, chunk: k }, o, |de| {
                T::deserialize(de)
            })
            .map(|_| ())
        }
    }
}

/// Run the case through the real code; `Ok(())` when deserialization succeeded.
pub fn execute(c: &Case) -> Result<(), Error> {
    match c.target {
        "MapI32" => go::<BTreeMap<String, i32>>(c),
        "Strict" => go::<Strict>(c),
        "En" => go::<En>(c),
        "VecString" => go::<Vec<String>>(c),
        "TupU8Str" => go::<(u8, String)>(c),
        "String" => go::<String>(c),
        "Val" => go::<Val>(c),
        "VecI32" => go::<Vec<i32>>(c),
        "GCfg" => crate::valid::execute_garde(c),
        "VCfg" => crate::valid::execute_validator(c),
        "StrRef" => {
            // borrowed target: only the string entry points can serve it
            let s = std::str::from_utf8(&c.input).unwrap_or("");
            match c.entry {
                Entry::Slice => serde_saphyr::from_slice_with_options::<Vec<&str>>(&c.input, c.options()).map(|_| ()),
                _ => serde_saphyr::from_str_with_options::<Vec<&str>>(s, c.options()).map(|_| ()),
            }
        }
        _ => go::<BTreeMap<String, i32>>(c),
    }
}
