//! Workload generators for C17.

use crate::cases::{Case, Entry, F_ANGLE, F_NO_SCHEMA, encode_utf16};
use vcore::rng::Rng;
use vcore::run::Tier;

/// The 28-token alphabet of DESIGN §5 C01.
pub const TOKENS: &[&str] = &[
    "a", "1", " ", "\n", "\t", "-", ":", "?", "[", "]", "{", "}", ",", "&a", "*a", "!t", "|", ">", "'", "\"", "#", "%", "<<", "---",
    "...", "~", "\\", "é",
];

/// i-th non-empty token string in length-then-lexicographic order.
pub fn token_string(mut i: usize) -> String {
    let n = TOKENS.len();
    let mut len = 1;
    let mut block = n;
    while i >= block {
        i -= block;
        block *= n;
        len += 1;
    }
    let mut idx = vec![0usize; len];
    for k in (0..len).rev() {
        idx[k] = i % n;
        i /= n;
    }
    idx.iter().map(|k| TOKENS[*k]).collect()
}

pub const RADII: &[usize] = &[0, 1, 3, 64, 1_000_000];

pub fn alt_config(h: u64) -> (usize, bool, Entry) {
    let radius = [0usize, 1, 3, 1_000_000, 64, 2][(h % 6) as usize];
    let snip = (h / 6) % 5 != 0;
    let entry = match (h / 30) % 9 {
        0 => Entry::Reader(1),
        1 => Entry::Reader(7),
        2 => Entry::Reader(8192),
        3 => Entry::Slice,
        4 => Entry::Multi,
        5 => Entry::WithDeStr,
        6 => Entry::ReadIter(7),
        7 => Entry::WithDeReader(7),
        _ => Entry::Str,
    };
    (radius, snip, entry)
}

// ------------------------------------------------------------------ W2: reflection

/// (name, payload text)
pub const PAYLOADS: &[(&str, &str)] = &[
    ("esc-csi", "\u{1b}[31mX"),
    ("c1-csi", "\u{9b}31mX"),
    ("nel", "a\u{85}b"),
    ("del", "a\u{7f}b"),
    ("nul", "a\u{0}b"),
    ("osc-bel", "\u{1b}]0;t\u{7}"),
    ("backspace", "ab\u{8}\u{8}"),
    ("cr", "a\rb"),
    ("vt-ff", "a\u{b}\u{c}b"),
    ("c1-misc", "\u{80}\u{9f}\u{90}q"),
    ("bidi", "a\u{202e}b"),
    ("lf", "a\nb"),
    ("tab", "a\tb"),
];

/// YAML double-quoted spelling. style 0: short escapes / \xNN, style 1: \uNNNN.
pub fn dq(s: &str, style: u8) -> String {
    let mut o = String::from("\"");
    for c in s.chars() {
        let u = c as u32;
        let special = crate::oracle::forbidden(c) || matches!(c, '"' | '\\' | '\n' | '\t');
        if !special {
            o.push(c);
            continue;
        }
        if style == 1 {
            o.push_str(&format!("\\u{u:04X}"));
            continue;
        }
        match c {
            '\0' => o.push_str("\\0"),
            '\u{7}' => o.push_str("\\a"),
            '\u{8}' => o.push_str("\\b"),
            '\t' => o.push_str("\\t"),
            '\n' => o.push_str("\\n"),
            '\u{b}' => o.push_str("\\v"),
            '\u{c}' => o.push_str("\\f"),
            '\r' => o.push_str("\\r"),
            '\u{1b}' => o.push_str("\\e"),
            '\u{85}' => o.push_str("\\N"),
            '"' => o.push_str("\\\""),
            '\\' => o.push_str("\\\\"),
            _ => o.push_str(&format!("\\x{u:02X}")),
        }
    }
    o.push('"');
    o
}

fn pct(s: &str) -> String {
    s.bytes().map(|b| if b.is_ascii_alphanumeric() { (b as char).to_string() } else { format!("%{b:02X}") }).collect()
}

struct Tpl {
    doc: String,
    target: &'static str,
    flags: u8,
}

/// All documents that make the library reflect `k` (a spelled scalar) in a message.
fn templates(k: &str, raw_payload: &str) -> Vec<Tpl> {
    let t = |doc: String, target: &'static str| Tpl { doc, target, flags: 0 };
    let mut v = vec![
        // duplicate key
        t(format!("{k}: 1\n{k}: 2\n"), "MapI32"),
        t(format!("{{{k}: 1, {k}: 2}}\n"), "MapI32"),
        t(format!("{k}: 1\n{k}: 2\n"), "Val"),
        t(format!("v:\n  {k}: 1\n  {k}: 2\n"), "Strict"),
        // unknown field
        t(format!("{k}: 1\n"), "Strict"),
        t(format!("h: {{{k}: 1}}\n"), "Strict"),
        // unknown field reached through an alias (two windows)
        t(format!("v: &x {{{k}: 1}}\nh: *x\n"), "Strict"),
        t(format!("v:\n  - &x {{{k}: 1}}\nk2: 5\nk1: s\nf: 1.5\nh: *x\n"), "Strict"),
        // unknown variant
        t(format!("{k}\n"), "En"),
        t(format!("e: {k}\n"), "Strict"),
        t(format!("{k}: 1\n"), "En"),
        t(format!("v: &x {k}\ne: *x\n"), "Strict"),
        // custom message from user code
        t(format!("cu: {k}\n"), "Strict"),
        t(format!("v: &x {k}\ncu: *x\n"), "Strict"),
        // serde invalid type / value, scalar parsers
        t(format!("{k}\n"), "TupU8Str"),
        t(format!("k2: {k}\n"), "Strict"),
        t(format!("c: {k}\n"), "Strict"),
        t(format!("b: {k}\n"), "Strict"),
        t(format!("l: [1, {k}]\n"), "Strict"),
        t(format!("- {k}\n- [\n"), "VecString"),
        // parser messages with the payload nearby
        t(format!("{k}: [\n"), "MapI32"),
        t(format!("k1: {k}\n  x: [}}\n"), "Strict"),
        t(format!("&{raw_payload} a\n"), "String"),
        t(format!("*{raw_payload}\n"), "String"),
        t(format!("%{raw_payload}\n---\na\n"), "String"),
        t(format!("- |{raw_payload}\n  x\n"), "VecString"),
        t(format!("\"\\q{raw_payload}\"\n"), "String"),
        t(format!("'{raw_payload}\n"), "String"),
        // borrowed string that needed an escape
        t(format!("- {k}\n"), "StrRef"),
    ];
    // tags
    v.push(t(format!("!{} A\n", pct(raw_payload)), "En"));
    v.push(t(format!("!<{}> A\n", pct(raw_payload)), "En"));
    v.push(t(format!("!<{raw_payload}> A\n"), "En"));
    v.push(t(format!("!{raw_payload} A\n"), "En"));
    v.push(t(format!("k1: !{} x\n", pct(raw_payload)), "Strict"));
    // no_schema: quoting required
    v.push(Tpl { doc: format!("k1: {k}\n"), target: "Strict", flags: F_NO_SCHEMA });
    v.push(Tpl { doc: format!("k1: 1{raw_payload}\n"), target: "Strict", flags: F_NO_SCHEMA });
    v.push(Tpl { doc: "k1: 0x1b\n".to_string(), target: "Strict", flags: F_NO_SCHEMA });
    // number-like plain scalars padded with characters that `str::trim` treats as white space
    for ws in ['\u{b}', '\u{c}', '\u{85}'] {
        v.push(Tpl { doc: format!("k1: 12{ws}\n"), target: "Strict", flags: F_NO_SCHEMA });
        v.push(Tpl { doc: format!("k1: {ws}0x1f\n"), target: "Strict", flags: F_NO_SCHEMA });
        v.push(Tpl { doc: format!("k1: true{ws}\n"), target: "Strict", flags: F_NO_SCHEMA });
    }
    // robotics expression hook
    v.push(Tpl { doc: format!("f: deg({k})\n"), target: "Strict", flags: F_ANGLE });
    v.push(Tpl { doc: format!("f: deg({raw_payload})\n"), target: "Strict", flags: F_ANGLE });
    v
}

pub fn reflect_cases(tier: Tier) -> Vec<Case> {
    let mut out = Vec::new();
    let configs: &[(usize, bool, Entry)] = &[
        (64, true, Entry::Str),
        (3, true, Entry::Str),
        (64, true, Entry::Reader(7)),
        (0, true, Entry::Str),
        (64, false, Entry::Str),
        (1_000_000, true, Entry::Slice),
        (1, true, Entry::Multi),
        (3, false, Entry::Reader(8192)),
        (64, true, Entry::WithDeStr),
    ];
    // thorough: every radius x {from_str, from_reader(7), from_multiple} x snippets on/off
    let mut all_cfg: Vec<(usize, bool, Entry)> = configs.to_vec();
    if tier == Tier::Thorough {
        for r in RADII {
            for e in [Entry::Str, Entry::Reader(7), Entry::Multi] {
                for snip in [true, false] {
                    if !all_cfg.contains(&(*r, snip, e)) {
                        all_cfg.push((*r, snip, e));
                    }
                }
            }
        }
    }
    let configs: &[(usize, bool, Entry)] = &all_cfg;
    let ctx_before: &[&str] = &["", "# c1\n", "# c1\n# \u{1b}[32mc2\u{9b}\n# c3\n"];
    let ctx_after: &[&str] = &["", "# a1\n# a2 \u{7f}\u{8}\n# a3\n"];
    for (_, payload) in PAYLOADS.iter() {
        for spelling in 0..4u8 {
            let k: String = match spelling {
                0 => dq(payload, 0),
                1 => dq(payload, 1),
                2 => {
                    if payload.contains(['\n', '\r']) {
                        continue;
                    }
                    format!("\"{payload}\"")
                }
                _ => {
                    if payload.contains(['\n', '\r']) {
                        continue;
                    }
                    payload.to_string()
                }
            };
            let raw = if payload.contains(['\n', '\r']) { "x" } else { payload };
            for tpl in templates(&k, raw) {
                for b in ctx_before.iter() {
                    for a in ctx_after.iter() {
                        // quick: thin the context grid deterministically, thorough: all of it
                        for crlf in [false, true] {
                            let mut doc = format!("{b}{}{a}", tpl.doc);
                            if crlf {
                                doc = doc.replace('\n', "\r\n");
                            }
                            for (radius, snip, entry) in configs.iter() {
                                if tpl.target == "StrRef" && !matches!(entry, Entry::Str | Entry::Slice) {
                                    continue;
                                }
                                let mut c = Case::new(&doc, tpl.target, "reflect");
                                c.flags = tpl.flags;
                                c.radius = *radius;
                                c.with_snippet = *snip;
                                c.entry = *entry;
                                out.push(c);
                            }
                        }
                    }
                }
            }
        }
    }
    // the same document can come out of several payload / spelling combinations
    let mut seen = std::collections::HashSet::new();
    out.retain(|c| seen.insert(c.hash()));
    out
}

/// Seed-independent instances of layouts that the seeded families reach only by chance.
pub fn fixed_cases() -> Vec<Case> {
    let mut out = Vec::new();
    let mut add = |doc: &str, target: &'static str, entries: &[Entry], radii: &[usize]| {
        for e in entries {
            for r in radii {
                let mut c = Case::new(doc, target, "fixed");
                c.entry = *e;
                c.radius = *r;
                out.push(c);
            }
        }
    };
    let both = [Entry::Str, Entry::Reader(7), Entry::Reader(8192), Entry::Slice];
    let radii = [64usize, 3, 1_000_000];
    // leading BOM
    add("\u{feff}k: zz\n", "MapI32", &both, &radii);
    add("\u{feff}# c\n\nk: [1, 2\n", "MapI32", &both, &radii);
    // non-ASCII text in comments / directives before the error
    add("# h\u{e9}llo w\u{f6}rld\nk: zz\n", "MapI32", &both, &radii);
    add("# \u{4e16}\u{754c}\n# \u{1f600}\nk:\n  - zz\n", "MapI32", &both, &radii);
    add("%\u{e9}\na\n", "Val", &both, &radii);
    add("%TAG ! tag:\u{e9}\u{e9}:\nx\n", "String", &both, &radii);
    // a line longer than the reader's window, error near its start / middle / end
    let long = "x".repeat(5000);
    add(&format!("{{k: zz, \"q{long}\": 2}}\n"), "MapI32", &both, &radii);
    add(&format!("# c\n{{\"p{long}\": 1, k: zz, \"q{long}\": 2}}\n"), "MapI32", &both, &radii);
    add(&format!("{{\"p{long}\": 1, k: zz}}\n# c\n"), "MapI32", &both, &radii);
    // two-window rendering: line numbers with 1, 2, 3 digits; wide text before the anchor
    for fill in [0usize, 7, 8, 9, 97, 98, 99, 1000] {
        let mut d = "# filler\n".repeat(fill);
        d.push_str("v: {q: &x {bad: 1}}\nh: *x\n");
        add(&d, "Strict", &both, &radii);
        let mut d = "# filler\n".repeat(fill);
        d.push_str("v: {\"\u{4e16}\u{754c}e\u{301}\": 1, q: &x zz}\n# between\nk2: *x\n# after\n");
        add(&d, "Strict", &both, &radii);
    }
    // every line of the window starts with more than 20 white-space characters (NBSP counts for
    // annotate-snippets) and the location lies inside them
    let nb = "\u{a0}".repeat(30);
    add(&format!("{nb}a: 1\n{nb}a: 1\n"), "MapI32", &both, &radii);
    add(&format!("# c\n{nb}a: 1\n{nb}b: 2\n{nb}a: 3\n{nb}c: 4\n"), "MapI32", &both, &radii);
    // a line wider than 65535 columns with the error at its end (miette pads with `{:width$}`)
    add(&format!("[{}zz]\n", "1, ".repeat(25_000)), "VecI32", &[Entry::Str], &[64]);
    add(&format!("k: {{\"{}\": 1, q: zz}}\n", "\ta".repeat(20_000)), "MapI32", &[Entry::Str], &[64]);
    // a raw NUL ends the stream for the parser (inside a long line: the miette adapter crops it)
    let xs = "x".repeat(2100);
    add(&format!("# short\n# {xs}\u{0}{xs}\n#x\nk: 1\n"), "TupU8Str", &[Entry::Str, Entry::Slice], &[64, 3]);
    add(&format!("# {xs}\u{0}{xs}\n#x\nk: 1\n"), "String", &[Entry::Str, Entry::Slice], &[64, 3]);
    add("&a\u{0}b a\n# c\n", "String", &[Entry::Str, Entry::Slice, Entry::WithDeStr], &[64, 3]);
    // documents whose first token already fails (from_multiple peeks before deserializing)
    for d in ["}", "]", "*a", "- }", "\"a", "a: 1\n---\n}\n"] {
        add(d, "MapI32", &[Entry::Multi, Entry::Str, Entry::WithDeStr], &radii);
    }
    out
}

// ------------------------------------------------------------------ W3: geometry

/// repeating units placed left / right of the failing token
pub const UNITS: &[(&str, &str)] = &[
    ("ascii", "x"),
    ("latin1-2byte", "é"),
    ("cjk-wide", "世"),
    ("combining", "e\u{301}"),
    ("emoji-4byte", "😀"),
    ("nbsp", "\u{a0}"),
    ("zwj-seq", "👨\u{200d}👩"),
    ("bidi", "\u{202e}a"),
    ("raw-del", "a\u{7f}"),
    ("raw-c1", "\u{9b}a"),
    ("tab", "\ta"),
    ("raw-esc", "\u{1b}[m"),
    ("zero-width-space", "a\u{200b}"),
];

const PLEN_THOROUGH: &[usize] = &[0, 1, 2, 3, 4, 5, 10, 62, 63, 64, 65, 66, 127, 128, 129, 139, 140, 141, 200, 300, 4097, 5000, 20000];

fn plens(_tier: Tier) -> &'static [usize] {
    PLEN_THOROUGH
}

pub fn geometry_count(tier: Tier) -> usize {
    UNITS.len() * plens(tier).len() * RADII.len() * tier.pick(20, 300)
}

fn repeat_chars(unit: &str, n_chars: usize) -> String {
    let mut s = String::new();
    let mut n = 0;
    'outer: loop {
        for c in unit.chars() {
            if n >= n_chars {
                break 'outer;
            }
            s.push(c);
            n += 1;
        }
        if unit.is_empty() {
            break;
        }
    }
    s
}

fn pick_entry(rng: &mut Rng) -> Entry {
    match rng.below(10) {
        0 => Entry::Reader(1),
        1 => Entry::Reader(7),
        2 => Entry::Reader(8192),
        3 => Entry::Slice,
        4 => Entry::Multi,
        5 => Entry::WithDeStr,
        _ => Entry::Str,
    }
}

pub fn geometry_case(tier: Tier, seed: u64, i: usize) -> Vec<Case> {
    let reps = tier.pick(20, 300);
    let pl = plens(tier);
    let mut j = i / reps;
    let radius = RADII[j % RADII.len()];
    j /= RADII.len();
    let plen = pl[j % pl.len()];
    j /= pl.len();
    let (_, unit) = UNITS[j % UNITS.len()];
    let mut rng = Rng::stream(seed ^ 0x17_0003, i as u64);
    let slen = *rng.pick(&[0usize, 1, 3, 64, 200, 5000]);
    let pre = repeat_chars(unit, plen);
    let post = repeat_chars(unit, slen);
    let shape = rng.below(6);
    // the line that fails
    let (err_line, target): (String, &'static str) = match shape {
        // flow mapping, failing value in the middle
        0 | 1 => {
            let mut l = String::from("{");
            if plen > 0 {
                l.push_str(&format!("\"{pre}\": 1, "));
            }
            l.push_str("k: zz");
            if slen > 0 {
                l.push_str(&format!(", \"q{post}\": 2"));
            }
            l.push('}');
            (l, "MapI32")
        }
        // block mapping entry: long key, failing value, trailing comment
        2 => (format!("\"p{pre}\": zz # {post}"), "MapI32"),
        // plain multi-word scalar where an int is expected
        3 => (format!("k: {pre} zz {post}"), "MapI32"),
        // unterminated flow sequence at the end of a long line (location at / near end of input)
        4 => (format!("k: [\"{pre}\", 1"), "MapI32"),
        // sequence of ints with the bad one far right
        _ => (format!("[{} zz, 2] # {post}", "1, ".repeat(plen.min(3000) / 3)), "VecI32"),
    };
    let ctx_line = |rng: &mut Rng| -> String {
        match rng.below(6) {
            0 => "# short".to_string(),
            1 => String::new(),
            2 => format!("# {}", repeat_chars(unit, plen + slen + 10)),
            3 => format!("# {}", repeat_chars(unit, 4200)),
            4 => format!("#{}", repeat_chars(unit, plen.saturating_sub(3))),
            _ => format!("# {}", repeat_chars("x", rng.below(80))),
        }
    };
    let nb = rng.below(4);
    let na = rng.below(4);
    let mut doc = String::new();
    for _ in 0..nb {
        doc.push_str(&ctx_line(&mut rng));
        doc.push('\n');
    }
    doc.push_str(&err_line);
    let end_nl = rng.chance(3, 4) || na > 0;
    if end_nl {
        doc.push('\n');
    }
    for _ in 0..na {
        doc.push_str(&ctx_line(&mut rng));
        doc.push('\n');
    }
    if rng.chance(1, 4) {
        doc = doc.replace('\n', "\r\n");
    }
    if rng.chance(1, 12) {
        doc.insert(0, '\u{feff}');
    }
    let mut c = Case::new(&doc, target, "geometry");
    c.radius = radius;
    c.with_snippet = !rng.chance(1, 6);
    c.entry = pick_entry(&mut rng);
    let mut out = vec![c.clone()];
    if c.entry != Entry::Str {
        // the same document through from_str (presence of the snippet is mandatory there)
        c.entry = Entry::Str;
        c.with_snippet = true;
        out.push(c);
    }
    out
}

// ------------------------------------------------------------------ W3b: alias errors (two windows)

pub fn alias_case(seed: u64, i: usize) -> Vec<Case> {
    let mut rng = Rng::stream(seed ^ 0x17_0013, i as u64);
    let (_, unit) = UNITS[i % UNITS.len()];
    let plen = *rng.pick(&[0usize, 1, 2, 3, 5, 20, 63, 64, 65, 140, 300, 4200]);
    let pre = repeat_chars(unit, plen);
    let nb = *rng.pick(&[0usize, 1, 2, 5, 7, 8, 9, 10, 11, 50, 97, 98, 99, 100, 101, 1200]);
    let mid = *rng.pick(&[0usize, 0, 1, 2, 3, 4, 6, 12]);
    let na = rng.below(4);
    let mut doc = String::new();
    for k in 0..nb {
        doc.push_str(if k % 7 == 3 { "#\n" } else { "# filler\n" });
    }
    let key = if plen > 0 { format!("\"{pre}\": 1, ") } else { String::new() };
    let use_line = match rng.below(3) {
        // unknown field inside an anchored mapping, reached through the alias
        0 => {
            doc.push_str(&format!("v: {{{key}q: &x {{bad: 1}}}}\n"));
            "h: *x"
        }
        // anchored scalar that is fine where defined (untyped) and fails where used
        1 => {
            doc.push_str(&format!("v: {{{key}q: &x zz}}\n"));
            "k2: *x"
        }
        // block style, anchor after a long key
        _ => {
            doc.push_str(&format!("v:\n  \"p{pre}\": &x zz\n"));
            "k2: *x"
        }
    };
    for k in 0..mid {
        doc.push_str(&format!("# between {k} {}\n", repeat_chars(unit, rng.below(30))));
    }
    doc.push_str(use_line);
    doc.push('\n');
    for _ in 0..na {
        doc.push_str("# after\n");
    }
    if rng.chance(1, 5) {
        doc = doc.replace('\n', "\r\n");
    }
    let mut c = Case::new(&doc, "Strict", "alias-geometry");
    c.radius = *rng.pick(&[64usize, 64, 3, 1, 1_000_000]);
    c.entry = match rng.below(6) {
        0 => Entry::Reader(7),
        1 => Entry::Reader(8192),
        2 => Entry::Slice,
        _ => Entry::Str,
    };
    vec![c]
}

// ------------------------------------------------------------------ W4: reader ring

pub fn ring_case(seed: u64, i: usize) -> Vec<Case> {
    let mut rng = Rng::stream(seed ^ 0x17_0004, i as u64);
    let target_size = *rng.pick(&[1500usize, 2900, 3072, 3100, 4100, 5000, 8192, 9000, 12_000, 20_000, 70_000]);
    let (_, unit) = *rng.pick(UNITS);
    let mut lines: Vec<String> = Vec::new();
    let mut size = 0;
    let mut n: usize = 0;
    while size < target_size {
        let pad = match rng.below(5) {
            0 => 0,
            1 => rng.below(20),
            2 => rng.below(200),
            3 => rng.below(700),
            _ => rng.below(40),
        };
        let l = if pad == 0 { format!("k{n}: {n}") } else { format!("k{n}: {n} # {}", repeat_chars(unit, pad)) };
        size += l.len() + 1;
        lines.push(l);
        n += 1;
    }
    // where the failure sits
    let at = match rng.below(5) {
        0 => 0,
        1 => n / 2,
        2 => n - 1,
        3 => n.saturating_sub(3),
        _ => rng.below(n),
    };
    match rng.below(4) {
        0 => lines[at] = format!("k{at}: zz # {}", repeat_chars(unit, rng.below(300))),
        1 => lines[at] = format!("\"{}k{at}\": zz", repeat_chars(unit, rng.below(300))),
        2 => lines.push("k0: 1".to_string()), // duplicate key, reported at the end
        _ => lines[at] = format!("k{at}: [1, 2"),
    }
    let mut doc = lines.join("\n");
    doc.push('\n');
    if rng.chance(1, 5) {
        doc = doc.replace('\n', "\r\n");
    }
    let radius = *rng.pick(&[64usize, 3, 1_000_000, 1, 64]);
    let chunk = *rng.pick(&[1usize, 7, 100, 1000, 8192, 65536]);
    let mut c = Case::new(&doc, "MapI32", "reader-ring");
    c.radius = radius;
    c.entry = Entry::Reader(chunk);
    let mut s = c.clone();
    s.entry = Entry::Str;
    s.family = "reader-ring-str-baseline";
    vec![c, s]
}

// ------------------------------------------------------------------ W5: UTF-16 through the reader

pub fn utf16_cases() -> Vec<Case> {
    let docs = [
        "k: 1\nj: zz\nl: 3\n",
        "k: 1\n世界: zz\n",
        "a: 1\nb: 2\nc: 3\nd: [1, 2\n",
        "\"\\e[31mX\": 1\n\"\\e[31mX\": 2\n",
        "k: é\n",
    ];
    let mut out = Vec::new();
    for d in docs {
        for le in [true, false] {
            for chunk in [7usize, 8192] {
                for radius in [64usize, 3] {
                    let mut c = Case::new(d, "MapI32", "utf16-reader");
                    c.input = encode_utf16(d, le);
                    c.enc = if le { "utf16le" } else { "utf16be" };
                    c.entry = Entry::Reader(chunk);
                    c.radius = radius;
                    out.push(c);
                }
            }
        }
    }
    out
}

// ------------------------------------------------------------------ W6: mutations

const HOSTILE: &[char] = &[
    '\u{1b}', '\u{9b}', '\u{7f}', '\0', '\u{7}', '\u{8}', '\u{b}', '\u{c}', '\u{85}', '\u{80}', '\u{9f}', '\t', '世', 'é', '\u{301}',
    '\u{200d}', '\u{202e}', '😀', '\u{a0}', '…', '|', '^', ':', '"', '\'', '[', '{', '#', '&', '*', '!', '\n', ' ', '\u{feff}', '\u{2028}',
];

pub fn mutated_case(tier: Tier, seed: u64, i: usize, w2: &[Case]) -> Option<Case> {
    let mut rng = Rng::stream(seed ^ 0x17_0006, i as u64);
    let base: Case = match rng.below(3) {
        0 => w2[rng.below(w2.len())].clone(),
        1 => {
            let n = geometry_count(tier);
            geometry_case(tier, seed, rng.below(n)).into_iter().next()?
        }
        _ => ring_case(seed, rng.below(4000)).into_iter().next()?,
    };
    let text = base.text.clone()?;
    if text.len() > 30_000 {
        return None;
    }
    let mut chars: Vec<char> = text.chars().collect();
    let k = rng.range(1, 4);
    for _ in 0..k {
        if chars.is_empty() {
            chars.push('a');
        }
        let p = rng.below(chars.len() + 1);
        match rng.below(5) {
            0 | 1 => chars.insert(p, *rng.pick(HOSTILE)),
            2 => {
                if p < chars.len() {
                    chars.remove(p);
                }
            }
            3 => {
                if p < chars.len() {
                    chars[p] = *rng.pick(HOSTILE);
                }
            }
            _ => {
                // duplicate a line
                let s: String = chars.iter().collect();
                let lines: Vec<&str> = s.split_inclusive('\n').collect();
                let li = rng.below(lines.len());
                let mut o = String::new();
                for (j, l) in lines.iter().enumerate() {
                    o.push_str(l);
                    if j == li {
                        o.push_str(l);
                    }
                }
                chars = o.chars().collect();
            }
        }
    }
    let doc: String = chars.into_iter().collect();
    let targets = ["MapI32", "Strict", "En", "VecString", "Val", "String", "TupU8Str", "VecI32"];
    let mut c = Case::new(&doc, if rng.chance(1, 2) { base.target } else { *rng.pick(&targets) }, "mutated");
    if c.target == "StrRef" {
        c.target = "VecString";
    }
    c.flags = base.flags;
    c.radius = *rng.pick(RADII);
    c.with_snippet = !rng.chance(1, 6);
    c.entry = pick_entry(&mut rng);
    Some(c)
}

// ------------------------------------------------------------------ W7: validation reports (garde / validator)

pub fn validation_cases(tier: Tier) -> Vec<Case> {
    use crate::cases::F_MULTILINE;
    let mut out = Vec::new();
    let configs: &[(usize, bool, Entry)] = &[
        (64, true, Entry::Str),
        (3, true, Entry::Str),
        (1, true, Entry::Slice),
        (64, true, Entry::Reader(7)),
        (64, true, Entry::Reader(8192)),
        (0, true, Entry::Str),
        (64, false, Entry::Str),
        (1_000_000, true, Entry::Multi),
        (64, true, Entry::ReadIter(7)),
        (3, true, Entry::Multi),
    ];
    let wide = "\u{4e16}\u{754c}e\u{301}";
    for (pi, (pname, payload)) in PAYLOADS.iter().enumerate() {
        for spelling in 0..3u8 {
            let k: String = match spelling {
                0 => dq(payload, 0),
                1 => dq(payload, 1),
                _ => {
                    if payload.contains(['\n', '\r']) {
                        continue;
                    }
                    format!("\"{payload}\"")
                }
            };
            let ml = if *pname == "lf" { F_MULTILINE } else { 0 };
            let long_list = format!("list: [{} {{n: 0}}]\n", "{n: 1},".repeat(tier.pick(60, 400)));
            let docs: Vec<String> = vec![
                // custom rule message repeats the value
                format!("note: {k}\n"),
                format!("firstName: Al\nnote: {k}\ncount: 3\n"),
                // map key of the input becomes part of the reported path
                format!("items:\n  {k}: {{n: 0, name: ab}}\n"),
                format!("items: {{{k}: {{n: 0}}, ok: {{n: 1}}}}\n"),
                format!("items: {{\"{wide}\": {{n: 1}}, {k}: {{n: 0, name: \"{wide}\"}}}}\n"),
                // aliased invalid values: use site + definition site
                format!("defs:\n  - &c 0\n  - &it {{n: 50, name: {k}}}\ncount: *c\nlist:\n  - *it\n"),
                format!("defs: {{\"{wide}\": &c 0, z: &nm x}}\n# {payload_c}\ncount: *c\nfirstName: *nm\n", payload_c = payload.replace(['\n', '\r'], " ")),
                // many issues, far apart
                format!(
                    "# c\ndefs:\n  - &c 0\n  - &it {{n: 50, name: zz}}\nfirstName: x\nnote: {k}\ncount: *c\nitems:\n  {k}: {{n: 0, name: ab}}\n{}list:\n  - {{n: 5, name: q}}\n  - *it\n",
                    "# pad\n".repeat(12)
                ),
                // error far right on a long line
                long_list.clone(),
                format!("note: {k}\n{long_list}"),
                // streams: second / both documents fail
                format!("note: ok\n---\nnote: {k}\ncount: 0\n"),
                format!("count: 0\n---\n# c\nitems:\n  {k}: {{n: 0}}\n...\n---\nfirstName: x\n"),
            ];
            for (di, d) in docs.iter().enumerate() {
                let fills: &[usize] = tier.pick(&[0usize, 9, 99][..], &[0usize, 1, 8, 9, 10, 98, 99, 100, 999][..]);
                for &fill in fills {
                    let doc = format!("{}{d}", "# filler\n".repeat(fill));
                    for crlf in [false, true] {
                        if crlf && (di + pi + fill) % 2 != 0 {
                            continue;
                        }
                        let doc = if crlf { doc.replace('\n', "\r\n") } else { doc.clone() };
                        for target in ["GCfg", "VCfg"] {
                            for (radius, snip, entry) in configs.iter() {
                                let mut c = Case::new(&doc, target, "validation");
                                c.flags = ml;
                                c.radius = *radius;
                                c.with_snippet = *snip;
                                c.entry = *entry;
                                out.push(c);
                            }
                        }
                    }
                }
            }
        }
    }
    let mut seen = std::collections::HashSet::new();
    out.retain(|c| seen.insert(c.hash()));
    out
}

// ------------------------------------------------------------------ W8: reader window alignment sweep

/// Exhaustive: the distance between the start of the reader's recent-bytes window and the
/// start of a line takes every value 0..line length. The window starts `RING` bytes before the
/// end of what has been read; what has been read depends on the chunk size, so both the
/// filler length (byte by byte) and the chunk size are swept.
pub fn ring_sweep_count(tier: Tier) -> usize {
    RING_PADS(tier) * RING_CHUNKS.len() * RING_SHAPES
}
#[allow(non_snake_case)]
fn RING_PADS(tier: Tier) -> usize {
    tier.pick(400, 1600)
}
const RING_CHUNKS: &[usize] = &[1, 7, 64, 1000, 3071, 3072, 3073, 4096, 8191, 8192, 8193, 65536];
const RING_SHAPES: usize = 6;

pub fn ring_sweep_case(tier: Tier, i: usize) -> Vec<Case> {
    let pads = RING_PADS(tier);
    let pad = i % pads;
    let chunk = RING_CHUNKS[(i / pads) % RING_CHUNKS.len()];
    let shape = i / pads / RING_CHUNKS.len();
    // lines of 97 bytes (prime, so the 3072-byte window start drifts through the line)
    let unit = ["x", "\u{e9}", "\u{4e16}"][shape % 3];
    let body_line = |n: usize| -> String {
        let head = format!("k{n}: {n} # ");
        let mut l = head.clone();
        while l.len() + unit.len() <= 96 {
            l.push_str(unit);
        }
        l
    };
    let mut doc = String::new();
    doc.push_str("# ");
    doc.push_str(&"p".repeat(pad));
    doc.push('\n');
    let n_lines = 80 + (shape / 3) * 60;
    for n in 0..n_lines {
        doc.push_str(&body_line(n));
        doc.push('\n');
    }
    let tail: &[&str] = if shape / 3 == 0 {
        // failing value on a line of its own, after long lines
        &["bad: zz\n", "after: 1\n"]
    } else {
        // failing value in the middle of a long line
        &[]
    };
    if tail.is_empty() {
        doc.push_str(&format!("{{\"{}\": 1, bad: zz, \"q{}\": 2}}\n", unit.repeat(40), unit.repeat(30)));
        // root is a block mapping: make the flow mapping a value
        doc = doc.replacen("{\"", "m: {\"", 1);
    } else {
        for t in tail {
            doc.push_str(t);
        }
    }
    let mut out = Vec::new();
    for radius in [64usize, 5] {
        let mut c = Case::new(&doc, if tail.is_empty() { "Val" } else { "MapI32" }, "ring-sweep");
        if tail.is_empty() {
            // `m` holds a mapping: duplicate key makes it fail late instead
            c = Case::new(&format!("{doc}k0: 1\n"), "MapI32", "ring-sweep");
        }
        c.radius = radius;
        c.entry = Entry::Reader(chunk);
        out.push(c);
    }
    out
}

// ------------------------------------------------------------------ W9: every column x every radius on mixed-width lines

const MIX: &[&str] = &["a", "\u{e9}", "\u{4e16}", "e\u{301}", "\u{1f600}", "\u{a0}", "\t", "\u{202e}", "\u{200b}", "b", "\u{754c}", "\u{9b}", "\u{7f}"];

pub fn column_sweep_count(tier: Tier) -> usize {
    // element index x leading blanks x line flavour
    tier.pick(40, 90) * 3 * 4
}

/// A flow sequence of one-character strings read as `Vec<String>`; element `j` is a nested
/// sequence, so the error sits at (nearly) every column in turn; every radius 0..=12 and 64.
pub fn column_sweep_case(tier: Tier, i: usize) -> Vec<Case> {
    let n_el = tier.pick(40, 90);
    let j = i % n_el;
    let lead = (i / n_el) % 3;
    let flavour = i / n_el / 3;
    let mut line = " ".repeat(lead);
    line.push('[');
    for e in 0..n_el {
        if e > 0 {
            line.push_str(", ");
        }
        if e == j {
            line.push_str("[x]");
        } else {
            let u = MIX[(e * 7 + flavour * 3) % MIX.len()];
            // quote what a plain scalar cannot hold
            if u.chars().any(|c| crate::oracle::forbidden(c) || c == '\t' || c == '\u{a0}') {
                line.push('"');
                line.push_str(u);
                line.push('"');
            } else {
                line.push_str(u);
            }
        }
    }
    line.push(']');
    let doc = match flavour {
        0 => format!("{line}\n"),
        1 => format!("# \u{4e16}\u{754c} before\n{line} # after \u{4e16}\n# tail\n"),
        2 => format!("# b1\n# b2\n# b3\n{line}\r\n# a1\r\n# a2\r\n# a3\r\n"),
        _ => line.clone(),
    };
    let mut out = Vec::new();
    for radius in (0usize..=12).chain([64usize, 139, 140]) {
        for entry in [Entry::Str, Entry::Reader(7)] {
            let mut c = Case::new(&doc, "VecString", "column-sweep");
            c.radius = radius;
            c.entry = entry;
            out.push(c);
        }
    }
    out
}

// ------------------------------------------------------------------ W10: errors in later documents of a stream

/// Exhaustive over small streams: d documents (1..=5) of 1, 2 or 4 lines, the failing one at
/// every index, three separator styles, optional leading comment; line numbers in the report
/// are stream-absolute.
pub fn stream_cases() -> Vec<Case> {
    let mut out = Vec::new();
    for ndocs in 1..=5usize {
        for bad in 0..ndocs {
            for lines in [1usize, 2, 4] {
                for sep in ["---\n", "...\n---\n", "--- # c\n"] {
                    for lead in ["", "# lead \u{4e16}\n"] {
                        for kind in 0..3 {
                            let mut doc = String::from(lead);
                            for d in 0..ndocs {
                                if d > 0 || sep.starts_with("--- #") {
                                    doc.push_str(sep);
                                }
                                for l in 0..lines {
                                    let key = format!("k{d}_{l}");
                                    if d == bad && l == lines - 1 {
                                        match kind {
                                            0 => doc.push_str(&format!("{key}: zz\n")),
                                            1 => doc.push_str(&format!("\"\u{4e16}{key}\": [1, 2\n")),
                                            _ => doc.push_str(&format!("{key}: 1\nk{d}_0: 2\n")),
                                        }
                                    } else {
                                        doc.push_str(&format!("{key}: {l}\n"));
                                    }
                                }
                            }
                            for (entry, radius) in [
                                (Entry::Multi, 64usize),
                                (Entry::Multi, 2),
                                (Entry::ReadIter(7), 64),
                                (Entry::Reader(7), 64),
                                (Entry::Str, 64),
                                (Entry::WithDeStr, 3),
                            ] {
                                let mut c = Case::new(&doc, "MapI32", "stream");
                                c.entry = entry;
                                c.radius = radius;
                                out.push(c);
                            }
                        }
                    }
                }
            }
        }
    }
    let mut seen = std::collections::HashSet::new();
    out.retain(|c| seen.insert(c.hash()));
    out
}

// ------------------------------------------------------------------ W11: miette adapter on very long lines

/// Exhaustive grid for the adapter's cropping of lines longer than 1 KiB around their labels:
/// one label at every distance class from both ends, two labels (use site and anchor) on one
/// line at every gap class, long unlabelled context lines, multi-byte text at the crop edges,
/// LF / CRLF, string and reader entry points.
pub fn miette_long_cases() -> Vec<Case> {
    let units = ["x", "\u{e9}", "\u{4e16}", "\u{a0}", "e\u{301}"];
    let lens: &[usize] = &[0, 100, 126, 127, 128, 129, 130, 500, 1100, 70_000];
    let mut out = Vec::new();
    let mut push = |doc: String, target: &'static str| {
        for crlf in [false, true] {
            let d = if crlf { doc.replace('\n', "\r\n") } else { doc.clone() };
            for entry in [Entry::Str, Entry::Reader(7)] {
                let mut c = Case::new(&d, target, "miette-long");
                c.entry = entry;
                out.push(c);
            }
        }
    };
    for u in units {
        // one label
        for &l in lens {
            for &r in lens {
                let mut line = String::from("{");
                if l > 0 {
                    line.push_str(&format!("\"{}\": 1, ", repeat_chars(u, l)));
                }
                line.push_str("k: zz");
                if r > 0 {
                    line.push_str(&format!(", \"q{}\": 2", repeat_chars(u, r)));
                }
                line.push('}');
                push(format!("{line}\n"), "MapI32");
                if l == 1100 || r == 1100 {
                    push(format!("# c {}\n{line}\n# d\n", repeat_chars(u, 3000)), "MapI32");
                }
            }
        }
        // two labels on one line: anchor ... gap ... alias
        let gaps: Vec<usize> =
            [0usize, 10, 200, 300, 1100, 2000, 70_000].into_iter().chain(250..=262).collect();
        for g in gaps {
            for lp in [0usize, 130, 1100] {
                let mut line = String::from("{v: [");
                if lp > 0 {
                    line.push_str(&format!("\"{}\", ", repeat_chars(u, lp)));
                }
                line.push_str("&x zz");
                if g > 0 {
                    line.push_str(&format!(", \"{}\"", repeat_chars(u, g)));
                }
                line.push_str("], k2: *x}");
                push(format!("{line}\n"), "Strict");
            }
        }
        // long unlabelled context lines around a short labelled line
        for n in [1100usize, 5000, 70_000] {
            let pad = repeat_chars(u, n);
            push(format!("# {pad}\nk: zz\n# {pad}\n"), "MapI32");
            push(format!("a: 1 # {pad}\nk: zz\nb: 2 # {pad}\n"), "MapI32");
        }
    }
    let mut seen = std::collections::HashSet::new();
    out.retain(|c| seen.insert(c.hash()));
    out
}
