use serde::Deserialize;
fn show(label: &str, s: &str) {
    println!("--- {label}");
    for l in s.split('\n') {
        println!("    {}", l.escape_debug());
    }
}
fn opts(r: usize) -> serde_saphyr::Options {
    let mut o = serde_saphyr::Options::default();
    #[allow(deprecated)]
    {
        o.crop_radius = r;
    }
    o
}
#[derive(Debug, Deserialize)]
#[allow(dead_code)]
struct S { a: String, #[serde(default)] f: Option<i32>, #[serde(default)] g: Vec<i32>, #[serde(default)] h: Option<Inner> }
#[derive(Debug, Deserialize)]
#[serde(deny_unknown_fields)]
#[allow(dead_code)]
struct Inner { k1: i32 }

fn main() {
    let docs: Vec<(&str, String)> = vec![
        ("alias", "a: &x zz\nb: 1\nc: 2\nd: 3\ne: 4\nf: *x\n".to_string()),
        ("aliaswide", "a: [世界, &x zz]\nb: 1\nc: 2\nd: 3\ne: 4\nf: *x\n".to_string()),
        ("aliastab", "a:\t&x zz\nb: 1\nc: 2\nd: 3\ne: 4\nf: *x\n".to_string()),
        ("aliasseq", "a: &x zz\ng: [1, *x]\n".to_string()),
        ("aliasinner", "a: &x {\"\\e[1mq\": 1}\nh: *x\n".to_string()),
        ("aliasnear", "a: &x zz\nf: *x\n".to_string()),
    ];
    for (name, d) in &docs {
        for r in [64usize, 1] {
            let e = serde_saphyr::from_str_with_options::<S>(d, opts(r));
            match e { Err(e) => {
                show(&format!("{name} r={r} loc={:?}", e.location().map(|l| (l.line(), l.column()))), &e.to_string());
                show("user", &e.render_with_formatter(&serde_saphyr::UserMessageFormatter));
                show("off", &e.render_with_options(serde_saphyr::render_options!{snippets: serde_saphyr::SnippetMode::Off}));
                let rep = serde_saphyr::miette::to_miette_report(&e, d, "f.yaml");
                let mut out = String::new();
                let h = miette::GraphicalReportHandler::new_themed(miette::GraphicalTheme::unicode_nocolor());
                h.render_report(&mut out, rep.as_ref()).unwrap();
                show("miette", &out);
            }
            Ok(v) => println!("{name}: OK {v:?}"),
            }
        }
    }
}
