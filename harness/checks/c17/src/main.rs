//! C17 — rendered error reports are terminal-safe, cropped, and show the right line.
//!
//! Invariant oracle on observed output. Every failing (input, target, options,
//! entry point) case is rendered through every public rendering channel
//! (`Display`, `render()`, `render_with_formatter` with the developer / default /
//! user formatter, a custom formatter with a custom `Localizer`,
//! `render_with_options` with `SnippetMode::{Auto,Off}`, and the miette adapter
//! through `GraphicalReportHandler` without colour). On every rendering:
//!   * no panic;
//!   * no C0 (other than LF, TAB), DEL or C1 character;
//!   * when a snippet window is present: <= 5 numbered lines, numbers within +-2 of
//!     the location line, each line at most 2*radius+1 characters (+ ellipses), the
//!     location line present, and the marker under the (sanitised) character at
//!     (line, column) of the input, compared by display column;
//!   * string entry points, snippets on, radius > 0, LF/CRLF text, location inside the
//!     text  =>  a snippet window is present.
//! The expected character comes from an independent model of the input text
//! (`oracle::SrcModel`), never from the crate's own snippet code.

mod cases;
mod oracle;
mod valid;
mod workload;

use cases::{Case, Entry};
use oracle::{SrcModel, Verdict, WinCtx};
use serde_json::json;
use serde_saphyr::{
    DefaultMessageFormatter, DeveloperMessageFormatter, Error, ExternalMessage, Localizer, Location, MessageFormatter,
    RenderOptions, SnippetMode, UserMessageFormatter,
};
use std::borrow::Cow;
use std::cell::Cell;
use std::collections::BTreeMap;
use vcore::obs::{catch, panic_site};
use vcore::run::{Finish, Run, Tier, par_range};

/// bytes kept by the reader's recent-bytes ring (src/ring_reader.rs RING_BUFFER_SIZE)
const RING: usize = 3072;

// ------------------------------------------------------------------ custom formatter / localizer

#[derive(Default)]
struct SpanishL {
    calls: Cell<u32>,
}
impl SpanishL {
    fn hit(&self, bit: u32) {
        self.calls.set(self.calls.get() | (1 << bit));
    }
}
impl Localizer for SpanishL {
    fn attach_location<'a>(&self, base: Cow<'a, str>, loc: Location) -> Cow<'a, str> {
        self.hit(0);
        if loc == Location::UNKNOWN {
            base
        } else {
            Cow::Owned(format!("{base} — línea {}, columna {}", loc.line(), loc.column()))
        }
    }
    fn alias_defined_at(&self, d: Location) -> String {
        self.hit(1);
        format!(" (ancla en {}:{})", d.line(), d.column())
    }
    fn value_used_here(&self) -> Cow<'static, str> {
        self.hit(2);
        Cow::Borrowed("aquí se usa el valor")
    }
    fn defined_window(&self) -> Cow<'static, str> {
        self.hit(3);
        Cow::Borrowed("definido aquí")
    }
    fn value_comes_from_the_anchor(&self, def: Location) -> String {
        self.hit(4);
        format!("  | el valor viene del ancla en línea {} columna {}:", def.line(), def.column())
    }
    fn snippet_location_prefix(&self, loc: Location) -> String {
        self.hit(5);
        if loc == Location::UNKNOWN { String::new() } else { format!("línea {} columna {}", loc.line(), loc.column()) }
    }
    fn override_external_message<'a>(&self, msg: ExternalMessage<'a>) -> Option<Cow<'a, str>> {
        self.hit(6);
        Some(Cow::Owned(format!("analizador: {}", msg.original)))
    }
}

struct SpanishF<'l> {
    l: &'l SpanishL,
}
impl MessageFormatter for SpanishF<'_> {
    fn localizer(&self) -> &dyn Localizer {
        self.l
    }
    fn format_message<'a>(&self, err: &'a Error) -> Cow<'a, str> {
        match err {
            Error::Eof { .. } => Cow::Borrowed("fin inesperado de la entrada"),
            Error::UnknownAnchor { .. } => Cow::Borrowed("referencia a un ancla desconocida"),
            Error::WithSnippet { error, .. } => self.format_message(error),
            _ => UserMessageFormatter.with_localizer(self.l).format_message(err),
        }
    }
}

// ------------------------------------------------------------------ classification

fn reflect_class(e: &Error) -> String {
    match e.without_snippet() {
        Error::DuplicateMappingKey { .. } => "duplicate-key".into(),
        Error::SerdeUnknownField { .. } => "unknown-field".into(),
        Error::SerdeUnknownVariant { .. } => "unknown-variant".into(),
        Error::TaggedEnumMismatch { .. } => "tag-mismatch".into(),
        Error::QuotingRequired { .. } => "quoting-required".into(),
        Error::ExternalMessage { .. } => "parser-message".into(),
        Error::Message { .. } => "custom-message".into(),
        Error::HookError { .. } => "hook-error".into(),
        Error::SerdeVariantId { msg, .. } => {
            if msg.starts_with("unknown variant") { "unknown-variant".into() } else { "variant-id".into() }
        }
        Error::SerdeInvalidType { .. } => "serde-invalid-type".into(),
        Error::SerdeInvalidValue { .. } => "serde-invalid-value".into(),
        Error::IOError { .. } => "io-error".into(),
        // an alias error carries the rendered text of the error met while replaying the anchor:
        // the reflecting class is the inner one
        Error::AliasError { msg, .. } => {
            if msg.starts_with("unknown field") {
                "unknown-field".into()
            } else if msg.starts_with("unknown variant") {
                "unknown-variant".into()
            } else if msg.starts_with("duplicate mapping key") {
                "duplicate-key".into()
            } else if msg.starts_with("bad value") {
                "custom-message".into()
            } else if msg.starts_with("tagged enum") {
                "tag-mismatch".into()
            } else {
                "alias-error".into()
            }
        }
        other => {
            let k = vcore::errs::kind(other);
            match k.as_str() {
                "ValidationError" | "ValidationErrors" => "validation-garde".into(),
                "ValidatorError" | "ValidatorErrors" => "validation-validator".into(),
                _ => format!("kind-{k}"),
            }
        }
    }
}

fn is_validation_kind(kind: &str) -> bool {
    matches!(kind, "ValidationError" | "ValidationErrors" | "ValidatorError" | "ValidatorErrors")
}

/// Does the message of this error carry text taken from the input?
fn reflects_input(e: &Error) -> bool {
    match e.without_snippet() {
        Error::DuplicateMappingKey { key, .. } => key.is_some(),
        Error::QuotingRequired { value, .. } => !value.is_empty(),
        Error::SerdeUnknownField { .. }
        | Error::SerdeUnknownVariant { .. }
        | Error::SerdeVariantId { .. }
        | Error::TaggedEnumMismatch { .. }
        | Error::Message { .. }
        | Error::SerdeInvalidType { .. }
        | Error::SerdeInvalidValue { .. }
        | Error::AliasError { .. } => true,
        // paths carry map keys of the input; custom rules may repeat the value
        other => is_validation_kind(&vcore::errs::kind(other)),
    }
}

#[derive(Clone, Copy, PartialEq, Eq, Debug)]
enum Chan {
    /// may carry a snippet
    Snippet,
    /// snippets switched off by the caller
    Plain,
    Miette,
}

#[derive(Clone, Copy, PartialEq, Eq, Debug)]
enum Fm {
    Dev,
    User,
    Custom,
    /// developer messages + custom localizer
    DevL,
}

struct Rendering {
    name: &'static str,
    chan: Chan,
    fm: Fm,
    text: String,
}

fn miette_render(rep: &miette::Report, width: usize) -> String {
    let h = miette::GraphicalReportHandler::new_themed(miette::GraphicalTheme::unicode_nocolor()).with_width(width);
    let mut out = String::new();
    let _ = h.render_report(&mut out, rep.as_ref());
    out
}

/// All renderings of `e`; a panic in any of them is reported and that channel dropped.
fn render_all(run: &Run, c: &Case, e: &Error, full: bool) -> Vec<Rendering> {
    let l = SpanishL::default();
    let custom = SpanishF { l: &l };
    let dev = DefaultMessageFormatter;
    let devl = dev.with_localizer(&l);
    let user = UserMessageFormatter;
    let src_text: String = c.text.clone().unwrap_or_else(|| String::from_utf8_lossy(&c.input).into_owned());
    let mut out = Vec::new();
    let mut push = |name: &'static str, chan: Chan, fm: Fm, f: &dyn Fn() -> String| {
        run.eval();
        match catch(f) {
            Ok(text) => out.push(Rendering { name, chan, fm, text }),
            Err(p) => {
                // signature: channel family + crate-relative panic site
                let site = panic_site(&p);
                let site = site.rsplit_once("/registry/src/").map(|(_, r)| r.split_once('/').map(|(_, x)| x).unwrap_or(r)).unwrap_or(&site).to_string();
                let fam = if chan == Chan::Miette { "miette-handler" } else { "render" };
                report(run, &format!("C17:panic:{fam}:{site}"), c, format!("rendering channel {name} panicked: {p}"))
            }
        }
    };
    let off = |f: &dyn MessageFormatter| {
        let mut ro = RenderOptions::new(f);
        ro.snippets = SnippetMode::Off;
        e.render_with_options(ro)
    };
    push("display", Chan::Snippet, Fm::Dev, &|| e.to_string());
    push("fmt-user", Chan::Snippet, Fm::User, &|| e.render_with_formatter(&user));
    push("fmt-custom", Chan::Snippet, Fm::Custom, &|| e.render_with_formatter(&custom));
    push("opt-off-default", Chan::Plain, Fm::Dev, &|| off(&dev));
    push("miette-default", Chan::Miette, Fm::Dev, &|| {
        miette_render(&serde_saphyr::miette::to_miette_report(e, &src_text, "input.yaml"), 80)
    });
    if full {
        push("render", Chan::Snippet, Fm::Dev, &|| e.render());
        push("fmt-developer", Chan::Snippet, Fm::Dev, &|| e.render_with_formatter(&DeveloperMessageFormatter::default()));
        push("fmt-default", Chan::Snippet, Fm::Dev, &|| e.render_with_formatter(&dev));
        push("fmt-default+localizer", Chan::Snippet, Fm::DevL, &|| e.render_with_formatter(&devl));
        push("opt-auto-user", Chan::Snippet, Fm::User, &|| e.render_with_options(RenderOptions::new(&user)));
        push("opt-off-user", Chan::Plain, Fm::User, &|| off(&user));
        push("opt-off-custom", Chan::Plain, Fm::Custom, &|| off(&custom));
        push("without-snippet-display", Chan::Plain, Fm::Dev, &|| e.without_snippet().to_string());
        push("miette-user", Chan::Miette, Fm::User, &|| {
            miette_render(
                &serde_saphyr::miette::to_miette_report_with_formatter(e, &src_text, "input.yaml", &user),
                400,
            )
        });
        push("miette-custom", Chan::Miette, Fm::Custom, &|| {
            miette_render(
                &serde_saphyr::miette::to_miette_report_with_formatter(e, &src_text, "input.yaml", &custom),
                80,
            )
        });
    }
    let calls = l.calls.get();
    for (bit, name) in [
        "attach_location",
        "alias_defined_at",
        "value_used_here",
        "defined_window",
        "value_comes_from_the_anchor",
        "snippet_location_prefix",
        "override_external_message",
    ]
    .iter()
    .enumerate()
    {
        if calls & (1 << bit) != 0 {
            run.observe("custom_localizer_methods_called", name);
        }
    }
    out
}

fn message_for(e: &Error, fm: Fm) -> Result<String, String> {
    let l = SpanishL::default();
    let inner = e.without_snippet();
    catch(|| match fm {
        Fm::Dev => DefaultMessageFormatter.format_message(inner).into_owned(),
        Fm::User => UserMessageFormatter.format_message(inner).into_owned(),
        Fm::Custom => SpanishF { l: &l }.format_message(inner).into_owned(),
        Fm::DevL => DefaultMessageFormatter.with_localizer(&l).format_message(inner).into_owned(),
    })
}

// ------------------------------------------------------------------ reporting

static SIG_SEEN: std::sync::LazyLock<std::sync::Mutex<BTreeMap<String, u64>>> =
    std::sync::LazyLock::new(|| std::sync::Mutex::new(BTreeMap::new()));

/// Every violating execution is counted; only the first few per signature are handed to
/// `Run::violation` (which keeps witnesses and matches known findings) — its bookkeeping is
/// linear in the number of calls.
fn report(run: &Run, sig: &str, c: &Case, detail: String) {
    let n = {
        let mut m = SIG_SEEN.lock().unwrap();
        let e = m.entry(sig.to_string()).or_insert(0);
        *e += 1;
        *e
    };
    if n <= 3
        && let Ok(show) = std::env::var("C17_SHOW")
        && sig.contains(&show)
    {
        // development aid: print the first witnesses of one signature
        eprintln!("=== {sig}\n{}\n{detail}\n", c.to_json().to_string().chars().take(700).collect::<String>());
    }
    if n <= 40 {
        run.violation(sig, c.to_json(), detail);
    }
}

fn flush_sig_counts(run: &Run) {
    for (k, v) in SIG_SEEN.lock().unwrap().iter() {
        run.count(&format!("violating_executions/{k}"), *v);
    }
}

// ------------------------------------------------------------------ one case

struct Local {
    counts: BTreeMap<String, u64>,
}
impl Local {
    fn add(&mut self, k: &str) {
        *self.counts.entry(k.to_string()).or_insert(0) += 1;
    }
}

static SHARDS: std::sync::LazyLock<Vec<std::sync::Mutex<BTreeMap<String, u64>>>> =
    std::sync::LazyLock::new(|| (0..64).map(|_| std::sync::Mutex::new(BTreeMap::new())).collect());
static NEXT_SHARD: std::sync::atomic::AtomicUsize = std::sync::atomic::AtomicUsize::new(0);
thread_local! {
    static SHARD: usize = NEXT_SHARD.fetch_add(1, std::sync::atomic::Ordering::Relaxed) % 64;
}

/// Counters go to one of 64 mutex-protected shards (worker threads are short-lived
/// scoped threads, so thread-locals cannot be collected at the end); merged once.
fn flush_counts(run: &Run) {
    for sh in SHARDS.iter() {
        let mut m = sh.lock().unwrap();
        for (k, v) in m.iter() {
            run.count(k, *v);
        }
        m.clear();
    }
}

fn check_case(run: &Run, c: &Case, full: bool) {
    let mut lc = Local { counts: BTreeMap::new() };
    let t0 = std::time::Instant::now();
    check_case_inner(run, c, full, &mut lc);
    // development aid only (never part of a verdict): name slow cases
    if t0.elapsed().as_millis() > 500 && std::env::var_os("C17_TIME").is_some() {
        eprintln!("slow case {} ms: {}", t0.elapsed().as_millis(), c.to_json().to_string().chars().take(400).collect::<String>());
    }
    let shard = SHARD.with(|s| *s);
    let mut m = SHARDS[shard].lock().unwrap();
    for (k, v) in lc.counts {
        *m.entry(k).or_insert(0) += v;
    }
}

fn check_case_inner(run: &Run, c: &Case, full: bool, lc: &mut Local) {
    run.eval();
    lc.add(&format!("cases/{}", c.family));
    let e = match catch(|| cases::execute(c)) {
        Err(p) => {
            report(run, &format!("C17:panic:deserialize:{}", panic_site(&p)), c, format!("entry point panicked: {p}"),
            );
            return;
        }
        Ok(Ok(())) => {
            lc.add("deserialized_ok");
            return;
        }
        Ok(Err(e)) => e,
    };
    lc.add("errors_rendered");
    let kind = vcore::errs::kind(&e);
    run.observe("error_kinds", &kind);
    run.observe("entry_points", c.entry.name());
    let class = reflect_class(&e);
    let wrapped = matches!(e, Error::WithSnippet { .. });
    if wrapped {
        lc.add("errors_with_snippet_wrapper");
        if !c.with_snippet && c.radius > 0 {
            // from_reader ignores Options::with_snippet (not part of the statement: observed only)
            lc.add(&format!("observed/snippet_wrapper_although_with_snippet_false/{}", c.entry.name()));
        }
    }

    let locs = e.locations();
    let loc = e.location().filter(|l| *l != Location::UNKNOWN);
    let dual = locs.filter(|l| {
        l.reference_location != Location::UNKNOWN
            && l.defined_location != Location::UNKNOWN
            && l.reference_location != l.defined_location
    });
    let model: Option<SrcModel> = c.text.as_deref().map(SrcModel::new);

    let renderings = render_all(run, c, &e, full);
    if run.is_replay().is_some() && std::env::var_os("C17_DUMP").is_some() {
        // development aid: show what was rendered
        if let Error::WithSnippet { regions, crop_radius, .. } = &e {
            for r in regions {
                eprintln!(
                    "region lines {}..={} radius {} text {:?}",
                    r.start_line,
                    r.end_line,
                    crop_radius,
                    r.text.chars().map(|c| if c == '\u{a0}' { '_' } else { c }).collect::<String>()
                );
            }
        }
        for r in &renderings {
            eprintln!("----- {} -----\n{}", r.name, r.text);
        }
    }
    let mut any_snippet = false;
    let mut msg_cache: BTreeMap<u8, Result<String, String>> = BTreeMap::new();

    for r in &renderings {
        lc.add(&format!("renderings/{}", r.name));
        // ---- terminal safety
        let bad = oracle::forbidden_lines(&r.text);
        let lines: Vec<&str> = if bad.is_empty() { Vec::new() } else { r.text.split('\n').collect() };
        let has_numbered = |sep: char| r.text.split('\n').any(|l| oracle::is_numbered(l, sep));
        let snippet_in_output = match r.chan {
            Chan::Miette => has_numbered('│'),
            _ => has_numbered('|'),
        };
        if r.chan == Chan::Snippet && snippet_in_output {
            any_snippet = true;
        }
        if bad.is_empty() {
            lc.add("held/terminal-safe");
        }
        let mut reported = std::collections::BTreeSet::new();
        for (li, ch) in bad {
            let sep = if r.chan == Chan::Miette { '│' } else { '|' };
            let in_source = oracle::is_numbered(lines[li], sep);
            let suffix = match r.chan {
                Chan::Miette => ":miette",
                Chan::Plain => ":plain",
                Chan::Snippet => {
                    if snippet_in_output {
                        ""
                    } else {
                        ":plain"
                    }
                }
            };
            let sig = if in_source {
                format!("C17:control-char-in-source-line{suffix}")
            } else {
                format!("C17:control-char-reflected:{class}{suffix}")
            };
            if reported.insert(sig.clone()) {
                report(run, &sig, c, format!(
                        "channel {} ({}): U+{:04X} in output line {:?}",
                        r.name,
                        kind,
                        ch as u32,
                        lines[li].chars().take(200).collect::<String>()
                    ),
                );
            }
        }

        // ---- structure
        match r.chan {
            Chan::Plain => {}
            Chan::Miette => {
                if is_validation_kind(&kind) {
                    // several related diagnostics with their own labels: only terminal safety is judged
                    lc.add("miette/validation-report");
                    continue;
                }
                if let (Some(m), Some(l)) = (&model, loc) {
                    let wins = oracle::parse_miette(&r.text);
                    if wins.is_empty() {
                        lc.add("miette/no-source-window");
                        continue;
                    }
                    let msg = msg_cache.entry(r.fm as u8).or_insert_with(|| message_for(&e, r.fm));
                    if !matches!(msg, Ok(s) if !s.contains('\n')) {
                        lc.add("unspecified/miette/multiline-message");
                        continue;
                    }
                    if c.enc != "utf8" {
                        lc.add("unspecified/miette/non-utf8-source");
                        continue;
                    }
                    let (line, col) = match dual {
                        Some(d) => (d.reference_location.line(), d.reference_location.column()),
                        None => (l.line(), l.column()),
                    };
                    let also: Vec<u64> = dual.map(|d| vec![d.reference_location.line(), d.defined_location.line()]).unwrap_or_default();
                    let mut vs = vec![oracle::check_miette_marker(&wins, m, line, col, &also)];
                    let mut cols = vec![col];
                    if let Some(d) = dual {
                        // second label: the anchor
                        vs.push(oracle::check_miette_marker(&wins, m, d.defined_location.line(), d.defined_location.column(), &also));
                        cols.push(d.defined_location.column());
                    }
                    // (a bare CR is a line break for the parser, not for the adapter's column count)
                    if !vs.iter().any(|v| matches!(v, Verdict::Violation(..))) && !m.lone_cr && !m.inner_bom {
                        let mut eol_cols = Vec::new();
                        let mut locs = vec![(line, col)];
                        if let Some(d) = dual {
                            locs.push((d.defined_location.line(), d.defined_location.column()));
                        }
                        for (l, cl) in locs {
                            if cl == 1 && l >= 2 {
                                if let Some(n) = m.line_len(l as usize - 1) {
                                    eol_cols.push(n as u64 + 1);
                                    eol_cols.push(n as u64);
                                }
                            }
                        }
                        vs.push(oracle::check_miette_column_notes(&r.text, &cols, &eol_cols));
                    }
                    for v in &vs {
                        if let Verdict::Violation(sig, _) = v {
                            run.observe("miette_violation_kinds", &format!("{sig}/{kind}/{}", c.entry.name()));
                        }
                    }
                    verdicts(run, c, lc, r, &kind, vs);
                }
            }
            Chan::Snippet if is_validation_kind(&kind) => {
                if c.flags & cases::F_MULTILINE != 0 {
                    lc.add("unspecified/multiline-message");
                    continue;
                }
                let Some(m) = &model else { continue };
                if c.enc != "utf8" {
                    continue;
                }
                let ring = !c.entry.is_string() && c.input.len() > RING;
                let blocks = oracle::parse_blocks(&r.text, matches!(r.fm, Fm::Custom | Fm::DevL));
                lc.add("validation/reports-parsed");
                for b in &blocks {
                    if b.lines.is_empty() {
                        // plain fallback for this issue / anchor: allowed
                        lc.add(if b.raw { "validation/anchor-without-window" } else { "validation/issue-title-without-window" });
                        continue;
                    }
                    lc.add(if b.raw { "validation/defined-here-windows" } else { "validation/issue-windows" });
                    for nl in &b.lines {
                        if nl.text.is_empty() && m.line_len(nl.n).map(|l| l > 0).unwrap_or(false) && !m.lone_cr {
                            lc.add("observed/context-line-shown-empty-for-nonempty-input-line");
                        }
                    }
                    let vs = oracle::check_window(
                        &b.lines,
                        &WinCtx {
                            src: m,
                            line: b.line,
                            col: b.col,
                            radius: c.radius,
                            raw_window: b.raw || oracle::shared_leading_ws(&b.lines) > 20,
                            ring_may_have_evicted: ring,
                            reader: !c.entry.is_string(),
                            name: if b.raw { "defined-here-window" } else { "primary-window" },
                        },
                    );
                    verdicts(run, c, lc, r, &kind, vs);
                }
            }
            Chan::Snippet => {
                let l10n_custom = SpanishL::default();
                let intro: Option<String> = dual.map(|d| match r.fm {
                    Fm::Custom | Fm::DevL => l10n_custom.value_comes_from_the_anchor(d.defined_location),
                    _ => serde_saphyr::DEFAULT_ENGLISH_LOCALIZER.value_comes_from_the_anchor(d.defined_location),
                });
                let msg = msg_cache.entry(r.fm as u8).or_insert_with(|| message_for(&e, r.fm));
                let single_line_msg = matches!(msg, Ok(s) if !s.contains('\n'));
                if let Err(p) = msg {
                    report(run, &format!("C17:panic:format_message:{}", panic_site(p)), c, format!("format_message panicked: {p}"),
                    );
                }
                if !single_line_msg {
                    // a reflected line break lets message text imitate snippet lines: layout not parseable
                    lc.add("unspecified/multiline-message");
                    continue;
                }
                let wins = oracle::parse_windows(&r.text, intro.as_deref());
                let (Some(m), Some(l)) = (&model, loc) else {
                    if wins.iter().any(|w| !w.is_empty()) {
                        lc.add("unspecified/snippet-without-text-model-or-location");
                    }
                    continue;
                };
                let (pl, pc) = match dual {
                    Some(d) => (d.reference_location.line(), d.reference_location.column()),
                    None => (l.line(), l.column()),
                };
                let ring = !c.entry.is_string() && c.input.len() > RING;
                let primary: &[oracle::NumLine] = wins.first().map(|w| w.as_slice()).unwrap_or(&[]);
                // -- presence
                let must = c.entry.is_string()
                    && c.with_snippet
                    && c.radius > 0
                    && c.enc == "utf8"
                    && !m.lone_cr
                    && !m.inner_bom
                    && m.expect_at(pl, pc) != oracle::Expect::Outside;
                if primary.is_empty() {
                    if must {
                        report(run, &format!("C17:snippet-missing:{}", c.entry.name()), c, format!(
                                "channel {}: {} at {}:{} inside the text, snippets on, radius {}, but no snippet window in {:?}",
                                r.name,
                                kind,
                                pl,
                                pc,
                                c.radius,
                                r.text.chars().take(300).collect::<String>()
                            ),
                        );
                    } else {
                        lc.add("no-snippet/not-required");
                    }
                    continue;
                }
                if must {
                    lc.add("held/snippet-present-when-required");
                }
                if c.radius == 0 {
                    lc.add("observed/snippet-with-radius-0");
                }
                if c.enc != "utf8" {
                    // the ring holds undecoded bytes: give the whole family one signature
                    let vs = oracle::check_window(
                        primary,
                        &WinCtx {
                            src: m,
                            line: pl,
                            col: pc,
                            radius: c.radius,
                            raw_window: oracle::shared_leading_ws(primary) > 20,
                            ring_may_have_evicted: ring,
                            reader: !c.entry.is_string(),
                            name: "primary-window",
                        },
                    );
                    let bad: Vec<String> = vs
                        .iter()
                        .filter_map(|v| if let Verdict::Violation(s, d) = v { Some(format!("{s}: {d}")) } else { None })
                        .collect();
                    if bad.is_empty() {
                        lc.add("held/non-utf8-reader-window");
                    } else {
                        report(run, &format!("C17:reader-snippet-from-undecoded-bytes:{}", c.enc), c, format!("channel {}: {}\n--- rendering ---\n{}", r.name, bad.join(" | "), r.text),
                        );
                    }
                    continue;
                }
                let vs = oracle::check_window(
                    primary,
                    &WinCtx {
                        src: m,
                        line: pl,
                        col: pc,
                        radius: c.radius,
                        raw_window: oracle::shared_leading_ws(primary) > 20,
                        ring_may_have_evicted: ring,
                            reader: !c.entry.is_string(),
                        name: "primary-window",
                    },
                );
                verdicts(run, c, lc, r, &kind, vs);
                if let (Some(d), Some(sec)) = (dual, wins.get(1)) {
                    if sec.is_empty() {
                        lc.add("secondary-window/absent");
                    } else {
                        lc.add("secondary-window/present");
                        let vs = oracle::check_window(
                            sec,
                            &WinCtx {
                                src: m,
                                line: d.defined_location.line(),
                                col: d.defined_location.column(),
                                radius: c.radius,
                                raw_window: true,
                                ring_may_have_evicted: ring,
                            reader: !c.entry.is_string(),
                                name: "defined-here-window",
                            },
                        );
                        verdicts(run, c, lc, r, &kind, vs);
                    }
                }
            }
        }
    }

    if any_snippet || reflects_input(&e) {
        run.nontrivial(c.hash());
        lc.add("nontrivial_cases");
        if any_snippet {
            lc.add(&format!("cases_with_snippet/{}", c.entry.name()));
        }
        if reflects_input(&e) {
            lc.add(&format!("cases_reflecting_input/{class}"));
        }
        if c.hash() % 1499 == 0 {
            run.sample(|| {
                json!({
                    "input": String::from_utf8_lossy(&c.input).chars().take(400).collect::<String>(),
                    "target": c.target, "entry": c.entry.name(), "radius": c.radius, "with_snippet": c.with_snippet,
                    "kind": kind,
                    "display": renderings.first().map(|r| r.text.chars().take(600).collect::<String>()),
                })
            });
        }
    }
}

fn verdicts(run: &Run, c: &Case, lc: &mut Local, r: &Rendering, kind: &str, vs: Vec<Verdict>) {
    for v in vs {
        match v {
            Verdict::Held(what) => lc.add(&format!("held/{what}")),
            Verdict::Unspecified(what) => lc.add(&format!("unspecified/{what}")),
            Verdict::Violation(sig, detail) => {
                // a raw NUL ends the stream for the parser; locations of the errors that follow carry a
                // line/column and a span that disagree - its own class
                let sig = if sig.starts_with("miette-") && c.input.contains(&0u8) { format!("{sig}:nul-in-input") } else { sig };
                let sig = if !c.entry.is_string() && !sig.contains("defined-here") {
                    format!("C17:{sig}:reader")
                } else {
                    format!("C17:{sig}")
                };
                report(run, &sig, c, format!(
                        "channel {} ({kind}, radius {}): {detail}\n--- rendering ---\n{}",
                        r.name,
                        c.radius,
                        r.text.chars().take(1500).collect::<String>()
                    ),
                );
            }
        }
    }
}

// ------------------------------------------------------------------ main

fn main() {
    let run = Run::from_args("C17");
    if let Some(rep) = run.is_replay() {
        match Case::from_json(&rep["case"]) {
            Some(c) => {
                // development aid: C17_LOOP=n repeats the case and prints the resident set
                let n: usize = std::env::var("C17_LOOP").ok().and_then(|s| s.parse().ok()).unwrap_or(1);
                for i in 0..n {
                    check_case(&run, &c, true);
                    if n > 1 && i % (n / 10).max(1) == 0 {
                        let statm = std::fs::read_to_string("/proc/self/statm").unwrap_or_default();
                        eprintln!("iter {i}: rss pages {}", statm.split_whitespace().nth(1).unwrap_or("?"));
                    }
                }
            }
            None => {
                eprintln!("harness error: replay file has no usable case");
                std::process::exit(2);
            }
        }
        flush_counts(&run);
        flush_sig_counts(&run);
        run.finish(Finish::new("replay"));
    }
    let tier = run.tier;
    // development aid only: C17_ONLY=w1,w3 runs a subset of the workload families
    let only = std::env::var("C17_ONLY").ok();
    let on = |w: &str| only.as_deref().map(|o| o.split(',').any(|x| x == w)).unwrap_or(true);

    // ---- W1: exhaustive token strings x targets (failing pairs only proceed to rendering)
    let max_len = 4;
    let toks = workload::TOKENS;
    let mut total = 0usize;
    let mut pow = 1usize;
    for _ in 0..max_len {
        pow *= toks.len();
        total += pow;
    }
    // hash-chosen (radius, with_snippet, entry point) configurations next to the default one
    let alt_n: u64 = tier.pick(2, 5);
    let w1_targets: &[&'static str] = &["MapI32", "Strict", "En", "VecString", "TupU8Str", "String", "Val"];
    par_range(if on("w1") { total } else { 0 }, |i| {
        let s = workload::token_string(i);
        let h = vcore::fnv(s.as_bytes());
        for (ti, t) in w1_targets.iter().enumerate() {
            let full = (h.wrapping_add(ti as u64)) % 8 == 0;
            let mut c = Case::new(&s, t, "tokens");
            check_case(&run, &c, full);
            // more configurations per pair, chosen by a hash of the pair (seed-independent)
            for k in 0..alt_n {
                let (radius, snip, entry) =
                    workload::alt_config(h.wrapping_mul(31).wrapping_add(ti as u64).wrapping_add(k.wrapping_mul(7919)));
                c.radius = radius;
                c.with_snippet = snip;
                c.entry = entry;
                c.family = "tokens-alt";
                check_case(&run, &c, full);
            }
        }
    });
    // thorough: one more token (all strings of exactly 5 tokens), default options, four targets
    let len5 = pow * toks.len();
    let w1b_targets: &[&'static str] = &["MapI32", "Strict", "En", "VecString"];
    let w1b_n = if on("w1b") && tier == Tier::Thorough { len5 } else { 0 };
    par_range(w1b_n, |i| {
        let s = workload::token_string(total + i);
        let h = vcore::fnv(s.as_bytes());
        for (ti, t) in w1b_targets.iter().enumerate() {
            let c = Case::new(&s, t, "tokens-len5");
            check_case(&run, &c, (h.wrapping_add(ti as u64)) % 16 == 0);
        }
    });

    // ---- W2: reflected control characters (exhaustive over the template grid)
    let w2 = workload::reflect_cases(tier);
    run.count("w2_reflect_grid", w2.len() as u64);
    par_range(if on("w2") { w2.len() } else { 0 }, |i| check_case(&run, &w2[i], true));

    if on("w2") {
        let fixed = workload::fixed_cases();
        run.count("fixed_cases", fixed.len() as u64);
        par_range(fixed.len(), |i| check_case(&run, &fixed[i], true));
    }

    // ---- W3: geometry (long lines, wide / combining / zero-width around the error column)
    let w3n = if on("w3") { workload::geometry_count(tier) } else { 0 };
    par_range(w3n, |i| {
        for c in workload::geometry_case(tier, run.seed, i) {
            check_case(&run, &c, true);
        }
    });

    // ---- W3b: two-window (alias) geometry: the hand-written "defined here" window
    let w3bn = if on("w3b") { tier.pick(40_000, 400_000) } else { 0 };
    par_range(w3bn, |i| {
        for c in workload::alias_case(run.seed, i) {
            check_case(&run, &c, i % 2 == 0);
        }
    });

    // ---- W4: reader ring (inputs around and beyond the ring size), W5: UTF-16 through the reader
    let w4n = if on("w4") { tier.pick(15_000, 200_000) } else { 0 };
    par_range(w4n, |i| {
        for c in workload::ring_case(run.seed, i) {
            check_case(&run, &c, i % 4 == 0);
        }
    });
    if on("w5") {
        for c in workload::utf16_cases() {
            check_case(&run, &c, true);
        }
    }

    // ---- W7: validation reports (garde + validator), exhaustive template grid
    let w7 = if on("w7") { workload::validation_cases(tier) } else { Vec::new() };
    run.count("w7_validation_grid", w7.len() as u64);
    par_range(w7.len(), |i| check_case(&run, &w7[i], true));

    // ---- W8: reader window start at every offset inside a line
    let w8n = if on("w8") { workload::ring_sweep_count(tier) } else { 0 };
    par_range(w8n, |i| {
        for c in workload::ring_sweep_case(tier, i) {
            check_case(&run, &c, i % 8 == 0);
        }
    });

    // ---- W9: error at every column of mixed-width lines x every small radius
    let w9n = if on("w9") { workload::column_sweep_count(tier) } else { 0 };
    par_range(w9n, |i| {
        for c in workload::column_sweep_case(tier, i) {
            check_case(&run, &c, i % 4 == 0);
        }
    });

    // ---- W10: failing document at every position of small streams
    let w10 = if on("w10") { workload::stream_cases() } else { Vec::new() };
    run.count("w10_stream_grid", w10.len() as u64);
    par_range(w10.len(), |i| check_case(&run, &w10[i], true));

    // ---- W11: miette adapter, lines longer than 1 KiB (cropped around their labels)
    let w11 = if on("w11") { workload::miette_long_cases() } else { Vec::new() };
    run.count("w11_miette_long_grid", w11.len() as u64);
    par_range(w11.len(), |i| check_case(&run, &w11[i], true));

    // ---- W6: seeded mutations of all of the above
    let w6n = if on("w6") { tier.pick(300_000, 5_000_000) } else { 0 };
    par_range(w6n, |i| {
        if let Some(c) = workload::mutated_case(tier, run.seed, i, &w2) {
            check_case(&run, &c, i % 4 == 0);
        }
    });
    flush_counts(&run);
    flush_sig_counts(&run);
    if only.is_some() {
        run.note("C17_ONLY set: partial workload, development run");
    }

    let scope = format!(
        "(1) all {total} non-empty strings of <= {max_len} tokens over the 28-token alphabet of DESIGN C01 x 7 targets x (default options via from_str + {alt_n} hash-chosen (radius in {{0,1,2,3,64,10^6}}, with_snippet, entry point in 9) configurations){}; \
         (2) the reflected-control-character grid: {} cases = 13 payloads x 4 spellings (short escapes, \\u escapes, raw in quotes, raw plain) x ~50 reflecting templates (duplicate key, unknown field, unknown variant, tag, quoting-required, custom message, alias-wrapped, parser messages, robotics hook, borrowed str) x 3 leading x 2 trailing comment contexts x LF/CRLF x {} (radius, snippet, entry) configurations, plus {} fixed layouts; \
         (3) validation reports: {} cases = 13 payloads x 3 spellings x 12 documents (custom-rule message, map key in path, aliased values with use + definition windows, many issues, long lines, multi-document streams) x filler lines x LF/CRLF x {{garde, validator}} x 10 configurations; \
         (4) reader window alignment: {} documents = filler length 0..{} (byte by byte) x 12 chunk sizes (1 .. 65536, around 3072 and 8192) x 6 line shapes, x radii {{64,5}}; \
         (5) column sweep: failing element at each of {} positions x 3 leading-blank offsets x 4 line flavours of mixed-width text x radii 0..=12,64,139,140 x {{from_str, from_reader}}; \
         (7) miette adapter on long lines: {} cases = 5 character classes x (one label at 10 x 10 left/right distances incl. 126..130 and 70000; anchor and alias on one line at 20 gaps incl. 250..=262 and 70000 x 3 left pads; long unlabelled context lines of 1100/5000/70000 characters) x LF/CRLF x {{from_str, from_reader}}; \
         (6) streams: {} cases = 1..=5 documents x failing document at every index x 1/2/4 lines x 3 separator styles x leading comment x 3 error kinds x 6 (entry, radius) pairs",
        if w1b_n > 0 { format!(" and all {len5} strings of exactly 5 tokens x 4 targets x default options") } else { String::new() },
        w2.len(),
        if tier == Tier::Quick { 9 } else { 33 },
        workload::fixed_cases().len(),
        w7.len(),
        w8n,
        w8n / 72,
        workload::column_sweep_count(tier) / 12,
        w11.len(),
        w10.len(),
    );
    let fin = Finish::new(
        "a case (input, target, entry point, radius, with_snippet, flags) is non-trivial when at least one rendering of its error contains a snippet window or the error's message carries text taken from the input (duplicate key, unknown field/variant, tag mismatch, quoting-required value, serde invalid type/value, custom message, alias error, validation report: map keys in paths and custom-rule messages); distinct by hash of the whole case. Seeded families on top of the exhaustive ones: line geometry (13 character classes x 23 prefix lengths x 5 radii), two-window alias geometry, reader documents around and beyond the 3 KiB window, UTF-16 through the reader, mutations of all documents",
    )
    .exhaustive(scope)
    .assume("the location carried by the error is taken as given (C16 judges it); C17 checks the marker against that location")
    .assume("lines are LF / CRLF terminated; inputs with a CR-only break, a BOM inside the text, a location outside the text, a multi-line message, or a reader window that may start inside a line are counted as unspecified for the marker check")
    .assume("validation reports: the location a window is checked against is the one its own title / anchor line states (C18 judges where issues point); an issue rendered as a plain message without a window is allowed and counted")
    .assume("context lines lying wholly left of the crop window are left uncropped by design (src/de/snippet.rs crop_line_by_cols); counted as unspecified")
    .min_nontrivial(if tier == Tier::Quick { 1_000_000 } else { 10_000_000 })
    .tool("annotate-snippets 0.12.12 layout (Renderer::plain, DecorStyle::Ascii)")
    .tool("miette 7.6 GraphicalReportHandler, unicode theme without colour")
    .tool("unicode-width 0.2");
    let _ = Entry::Str;
    run.finish(fin);
}
