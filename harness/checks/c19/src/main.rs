//! C19 — robotics expressions evaluate totally and exactly; plain numbers are
//! unchanged; nothing changes unless the option is switched on.
//!
//! Oracles
//!  1. independent reference model (refeval.rs: tokenizer + precedence parser +
//!     evaluator over sets of admissible IEEE results) against
//!     `from_str_with_options::<f64|f32>` with `angle_conversions = true`:
//!     accepted expressions bit-exact, documented error classes rejected,
//!     undocumented classes counted as unspecified;
//!  2. differential on the real code: every ordinary float literal (corpus +
//!     double-rounding witnesses) with the option on vs off, targets f32/f64/untyped;
//!  3. cross-build differential: the corpus dumped by `c19nr` (serde-saphyr built
//!     without the `robotics` feature; option off and on) vs this binary with the
//!     option off;
//!  4. invariants: no panic, thread CPU time within 10^4 x typical, no stack
//!     exhaustion in an 8 MiB child for deep / long inputs.

mod corpus;
mod doc;
#[path = "../../c19nr/src/dump.rs"]
mod dump;
mod exprgen;
mod refeval;

use doc::{Ctx, build, mk_opts};
use refeval::{Ast, MAX_DEPTH, SURE_DEPTH, Tag, Verdict, f32_cands, matches32, matches64, paren_depth, reference};
use serde_json::{Value, json};
use std::collections::{BTreeMap, BTreeSet};
use std::path::PathBuf;
use vcore::obs::{catch, panic_site, thread_cpu_s};
use vcore::rng::{Rng, fnv_parts};
use vcore::run::{Finish, Run, Tier, par_range};

// ------------------------------------------------------------------ local accumulators

#[derive(Default)]
struct Local {
    counts: BTreeMap<String, u64>,
    sets: BTreeMap<&'static str, BTreeSet<String>>,
}

impl Local {
    fn count(&mut self, k: &str) {
        self.add(k, 1);
    }
    fn add(&mut self, k: &str, n: u64) {
        if let Some(v) = self.counts.get_mut(k) {
            *v += n;
        } else {
            self.counts.insert(k.to_string(), n);
        }
    }
    fn observe(&mut self, set: &'static str, v: String) {
        let s = self.sets.entry(set).or_default();
        if s.len() < 200 {
            s.insert(v);
        }
    }
    fn flush(self, run: &Run) {
        for (k, v) in self.counts {
            run.count(&k, v);
        }
        for (set, vs) in self.sets {
            for v in vs {
                run.observe(set, &v);
            }
        }
    }
}

/// `par_range` over chunks with one `Local` per chunk.
fn par_chunks(run: &Run, n: usize, chunk: usize, f: impl Fn(usize, &mut Local) + Sync) {
    let chunks = n.div_ceil(chunk.max(1));
    par_range(chunks, |c| {
        let mut l = Local::default();
        let lo = c * chunk;
        let hi = (lo + chunk).min(n);
        for i in lo..hi {
            f(i, &mut l);
        }
        l.flush(run);
    });
}

// ------------------------------------------------------------------ violation throttle

/// `Run::violation` keeps every distinct (signature, case) key and scans that set on each call;
/// a change that breaks a whole class (millions of cases) would make that quadratic. Report at
/// most `VIO_CAP` cases per signature and count the rest.
const VIO_CAP: u64 = 40;
static VIO_SEEN: std::sync::Mutex<BTreeMap<String, u64>> = std::sync::Mutex::new(BTreeMap::new());

fn vio(run: &Run, sig: &str, case: Value, detail: impl Into<String>) {
    let n = {
        let mut m = VIO_SEEN.lock().unwrap();
        let e = m.entry(sig.to_string()).or_insert(0);
        *e += 1;
        *e
    };
    if n <= VIO_CAP {
        run.violation(sig, case, detail);
    } else if n == VIO_CAP + 1 {
        run.note(format!("more than {VIO_CAP} cases with signature {sig}: further ones are only counted"));
    }
}

fn flush_violation_counts(run: &Run) {
    for (sig, n) in VIO_SEEN.lock().unwrap().iter() {
        run.count(&format!("violating_cases_seen/{sig}"), *n);
    }
}

// ------------------------------------------------------------------ CPU calibration

#[derive(Clone, Copy)]
struct Calib {
    base_s: f64,
    per_byte_s: f64,
}

impl Calib {
    fn typical(&self, n: usize) -> f64 {
        self.base_s + self.per_byte_s * n as f64
    }
    /// a violation needs >= 10^4 x typical (and an absolute floor against timer noise)
    fn hard(&self, n: usize) -> f64 {
        (1e4 * self.typical(n)).max(0.25)
    }
    fn soft(&self, n: usize) -> f64 {
        (1e3 * self.typical(n)).max(0.05)
    }
    fn measure() -> Calib {
        let small = "1.5 + 2*(3 - 4/5)\n";
        let t0 = thread_cpu_s();
        let reps = 4000;
        for _ in 0..reps {
            let _ = serde_saphyr::from_str_with_options::<f64>(small, mk_opts(true, true));
        }
        let base = ((thread_cpu_s() - t0) / reps as f64).max(2e-7);
        let mut big = String::from("\"");
        while big.len() < 64 * 1024 {
            big.push_str("1.5+2*(3-4/5)+");
        }
        big.push_str("1\"\n");
        let mut best = f64::MAX;
        for _ in 0..5 {
            let t0 = thread_cpu_s();
            let _ = serde_saphyr::from_str_with_options::<f64>(&big, mk_opts(true, true));
            best = best.min(thread_cpu_s() - t0);
        }
        Calib { base_s: base, per_byte_s: (best / big.len() as f64).max(5e-10) }
    }
}

// ------------------------------------------------------------------ library calls

#[derive(Clone, Copy, Debug, PartialEq)]
enum Target {
    F64,
    F32,
}

impl Target {
    fn name(self) -> &'static str {
        match self {
            Target::F64 => "f64",
            Target::F32 => "f32",
        }
    }
}

#[derive(Clone, Copy, Debug)]
enum Num {
    F64(f64),
    F32(f32),
}

impl Num {
    fn show(self) -> String {
        match self {
            Num::F64(v) => format!("{v:e} [{}]", dump::f64s(v)),
            Num::F32(v) => format!("{v:e} [{}]", dump::f32s(v)),
        }
    }
}

fn lib_eval(docu: &str, ctx: Ctx, target: Target, on: bool, unlimited: bool) -> Result<Result<Num, serde_saphyr::Error>, String> {
    catch(|| match target {
        Target::F64 => doc::eval::<f64>(docu, ctx, mk_opts(on, unlimited)).map(Num::F64),
        Target::F32 => doc::eval::<f32>(docu, ctx, mk_opts(on, unlimited)).map(Num::F32),
    })
}

fn err_label(e: &serde_saphyr::Error) -> String {
    let d = format!("{:?}", e.without_snippet());
    let kind: String = d.chars().take_while(|c| c.is_ascii_alphanumeric() || *c == '_').collect();
    if let Some(p) = d.find("msg: \"") {
        let rest = &d[p + 6..];
        let msg: String = rest.chars().take_while(|c| *c != '"').take(60).collect();
        format!("{kind}: {msg}")
    } else {
        kind
    }
}

// ------------------------------------------------------------------ expression cases

struct ExprCase<'a> {
    text: &'a str,
    tag: Tag,
    ctx: Ctx,
    style: u8,
    unlimited: bool,
    /// label of the generator family (evidence only)
    family: &'static str,
    /// record the case in the distinct-non-trivial hash set (false for the largest exhaustive
    /// layers, whose members are distinct by construction and are only counted, to bound memory)
    hash_nt: bool,
}

/// Lexical test for "has at least one operator / function / sexagesimal form".
fn has_operator(text: &str) -> bool {
    let t = text.trim();
    let b = t.as_bytes();
    for (i, c) in b.iter().enumerate() {
        match c {
            b'*' | b'/' | b'(' | b':' => return true,
            b'+' | b'-' => {
                if i > 0 && !matches!(b[i - 1], b'e' | b'E') && !b[..i].iter().all(|x| matches!(x, b'+' | b'-' | b' ')) {
                    return true;
                }
            }
            _ => {}
        }
    }
    false
}

fn feature_class(ast: Option<&Ast>, tag: Tag) -> &'static str {
    fn walk(a: &Ast, sexa: &mut bool, deg: &mut bool, rad: &mut bool) {
        match a {
            Ast::Sexa { .. } => *sexa = true,
            Ast::Func(d, x) => {
                if *d {
                    *deg = true
                } else {
                    *rad = true
                }
                walk(x, sexa, deg, rad)
            }
            Ast::Neg(x) | Ast::Plus(x) | Ast::Paren(x) => walk(x, sexa, deg, rad),
            Ast::Bin(_, x, y) => {
                walk(x, sexa, deg, rad);
                walk(y, sexa, deg, rad)
            }
            _ => {}
        }
    }
    let (mut s, mut d, mut r) = (false, false, false);
    if let Some(a) = ast {
        walk(a, &mut s, &mut d, &mut r);
    }
    if s {
        "sexagesimal"
    } else if d {
        "deg-function"
    } else if r {
        "rad-function"
    } else if tag == Tag::Degrees {
        "degrees-tag"
    } else if tag == Tag::Radians {
        "radians-tag"
    } else if ast.is_some_and(|a| a.ops() > 0) {
        "arithmetic"
    } else {
        "literal"
    }
}

fn expr_case_json(c: &ExprCase, docu: &str, target: Target) -> Value {
    json!({"kind": "expr", "text": c.text, "tag": c.tag.source(), "ctx": c.ctx.name(), "style": c.style,
           "unlimited": c.unlimited, "target": target.name(), "doc": docu, "family": c.family})
}

/// Bounded-progress monitor around one library call; returns the outcome of the first run.
fn timed<T>(run: &Run, calib: Option<&Calib>, n_bytes: usize, family: &str, case: impl Fn() -> Value, f: impl Fn() -> T) -> T {
    let Some(cal) = calib else { return f() };
    let t0 = thread_cpu_s();
    let r = f();
    let dt = thread_cpu_s() - t0;
    run.max("cpu_max_us", (dt * 1e6) as u64);
    let ratio = dt / cal.typical(n_bytes);
    run.max("cpu_max_ratio_to_typical_x100", (ratio * 100.0) as u64);
    if dt > cal.soft(n_bytes) {
        // repeat: an algorithmic blow-up repeats, scheduler/hypervisor noise does not
        let mut best = dt;
        for _ in 0..2 {
            let t0 = thread_cpu_s();
            let _ = f();
            best = best.min(thread_cpu_s() - t0);
        }
        if best > cal.hard(n_bytes) {
            vio(run, 
                &format!("C19:cpu-bound-exceeded:{family}"),
                case(),
                format!("thread CPU {best:.3}s for {n_bytes} bytes; typical {:.6}s; bound 10^4 x typical = {:.3}s", cal.typical(n_bytes), cal.hard(n_bytes)),
            );
        } else if best > cal.soft(n_bytes) {
            run.inconclusive("cpu: above 10^3 x typical but below the 10^4 x bound");
        }
    }
    r
}

fn check_expr(run: &Run, c: &ExprCase, calib: Option<&Calib>, l: &mut Local) {
    let Some(docu) = build(c.text, c.tag, c.ctx, c.style) else {
        run.inconclusive("generator-invalid: raw parser does not confirm the scalar document");
        return;
    };
    let (verdict, ast) = if c.text.len() <= 4096 { reference(c.text, c.tag) } else { (Verdict::Unspec("too-long-for-reference"), None) };
    let depth = paren_depth(c.text);
    let op = has_operator(c.text);
    for target in [Target::F64, Target::F32] {
        run.eval();
        let r = timed(run, calib, docu.len(), c.family, || expr_case_json(c, &docu, target), || lib_eval(&docu, c.ctx, target, true, c.unlimited));
        let r = match r {
            Err(p) => {
                vio(run, &format!("C19:panic:{}", panic_site(&p)), expr_case_json(c, &docu, target), p);
                continue;
            }
            Ok(r) => r,
        };
        if let Err(e) = &r {
            l.observe("error_kinds", err_label(e));
        }
        let held = match (&verdict, &r) {
            (Verdict::Unspec(class), _) => {
                l.count(&format!("unspecified/{class}"));
                l.count(if r.is_ok() { "unspecified_lib_ok" } else { "unspecified_lib_err" });
                false
            }
            (Verdict::Value(c64), Ok(v)) => {
                let a = ast.as_ref().unwrap();
                let ok = match v {
                    Num::F64(x) => matches64(c64, *x),
                    Num::F32(x) => matches32(&f32_cands(a, c.tag, c64), *x),
                };
                if ok {
                    l.count("value_held");
                    if c64.len() > 1 {
                        l.count("value_held_with_rounding_alternatives");
                    }
                    true
                } else {
                    let want: Vec<String> = match target {
                        Target::F64 => c64.iter().map(|x| Num::F64(*x).show()).collect(),
                        Target::F32 => f32_cands(a, c.tag, c64).iter().map(|x| Num::F32(*x).show()).collect(),
                    };
                    vio(run, 
                        &format!("C19:value:{}:{}", target.name(), feature_class(ast.as_ref(), c.tag)),
                        expr_case_json(c, &docu, target),
                        format!("library {} ; reference admits {}", v.show(), want.join(" | ")),
                    );
                    false
                }
            }
            (Verdict::Value(_), Err(e)) => {
                if depth > SURE_DEPTH {
                    l.count("unspecified/rejected-at-depth-65-to-256");
                    false
                } else {
                    vio(run, 
                        &format!("C19:rejected-valid:{}", feature_class(ast.as_ref(), c.tag)),
                        expr_case_json(c, &docu, target),
                        format!("reference evaluates the expression, library: {}", err_label(e)),
                    );
                    false
                }
            }
            (Verdict::Reject(class), Ok(v)) => {
                vio(run, 
                    &format!("C19:accepted:{class}"),
                    expr_case_json(c, &docu, target),
                    format!("documented error class `{class}` but library returned {}", v.show()),
                );
                false
            }
            (Verdict::Reject(class), Err(_)) => {
                l.count("reject_held");
                l.count(&format!("reject_held/{class}"));
                true
            }
        };
        if held && op && !c.hash_nt {
            l.count(&format!("nontrivial_counted_not_hashed/{}", c.family));
        }
        if held && op && c.hash_nt {
            run.nontrivial(fnv_parts(&[docu.as_bytes(), target.name().as_bytes(), &[c.unlimited as u8]]));
            l.count(&format!("nontrivial_by_family/{}", c.family));
        }
        if held && depth > 0 {
            l.count(&format!("depth_bucket/{}", if depth <= 4 { "1-4" } else if depth <= SURE_DEPTH { "5-64" } else if depth <= MAX_DEPTH { "65-256" } else { ">256" }));
        }
    }
}


// ------------------------------------------------------------------ commutativity (metamorphic, no semantics needed)

const WRAPPERS: &[(&str, &str)] = &[("", ""), ("(", ")"), ("deg(", ")"), ("rad(", ")"), ("-(", ")"), ("2*(", ")"), ("deg((", "))"), ("rad(1 + (", "))")];

fn commute_case_json(a: &str, b: &str, op: char, w: usize, tag: Tag, ctx: Ctx, target: Target) -> Value {
    json!({"kind": "commute", "a": a, "b": b, "op": op.to_string(), "wrapper": w, "tag": tag.source(), "ctx": ctx.name(), "target": target.name()})
}

fn same_outcome(x: &Result<Num, serde_saphyr::Error>, y: &Result<Num, serde_saphyr::Error>) -> bool {
    match (x, y) {
        (Err(_), Err(_)) => true,
        (Ok(Num::F64(a)), Ok(Num::F64(b))) => dump::f64s(*a) == dump::f64s(*b),
        (Ok(Num::F32(a)), Ok(Num::F32(b))) => dump::f32s(*a) == dump::f32s(*b),
        _ => false,
    }
}

/// IEEE-754 `+` and `*` are commutative bit for bit (NaN as a class), so `W(A op B)` and
/// `W(B op A)` must give the identical result or both fail - whatever A and B mean,
/// including the classes the reference model leaves unspecified. `a` and `b` must be
/// renderable on either side of `op` (primary / signed for `*`, no bare `+ -` chain for `+`).
fn check_commute(run: &Run, a: &str, b: &str, op: char, w: usize, tag: Tag, ctx: Ctx, l: &mut Local) {
    let (pre, post) = WRAPPERS[w % WRAPPERS.len()];
    let t1 = format!("{pre}{a} {op} {b}{post}");
    let t2 = format!("{pre}{b} {op} {a}{post}");
    let (Some(d1), Some(d2)) = (build(&t1, tag, ctx, 0), build(&t2, tag, ctx, 0)) else {
        run.inconclusive("generator-invalid: raw parser does not confirm the scalar document");
        return;
    };
    for target in [Target::F64, Target::F32] {
        run.evals(2);
        let case = || commute_case_json(a, b, op, w, tag, ctx, target);
        let (r1, r2) = match (lib_eval(&d1, ctx, target, true, false), lib_eval(&d2, ctx, target, true, false)) {
            (Err(p), _) | (_, Err(p)) => {
                vio(run, &format!("C19:panic:{}", panic_site(&p)), case(), p);
                continue;
            }
            (Ok(x), Ok(y)) => (x, y),
        };
        if same_outcome(&r1, &r2) {
            l.count(if r1.is_ok() { "commute/both_ok_identical" } else { "commute/both_err" });
            if r1.is_ok() {
                run.nontrivial(fnv_parts(&[d1.as_bytes(), d2.as_bytes(), target.name().as_bytes(), b"commute"]));
            }
            continue;
        }
        // exception: an operand that is itself rejected in this context
        let alone = |x: &str| build(&format!("{pre}{x}{post}"), tag, ctx, 0).is_some_and(|d| matches!(lib_eval(&d, ctx, target, true, false), Ok(Ok(_))));
        // (under !degrees a lone bare or lone unitized operand is fine while the mix is rejected in both orders,
        //  so a rejected operand can only explain an asymmetry, never create a false alarm)
        let tag_for_alone_ok = alone(a) && alone(b);
        if !tag_for_alone_ok {
            l.count("unspecified/commutativity-operand-rejected-alone");
            continue;
        }
        let show = |r: &Result<Num, serde_saphyr::Error>| match r {
            Ok(v) => v.show(),
            Err(e) => format!("Err({})", err_label(e)),
        };
        vio(
            run,
            "C19:commutativity:operand-order-changes-result",
            case(),
            format!("`{t1}` -> {} ; `{t2}` -> {}", show(&r1), show(&r2)),
        );
    }
}

const COMMUTE_FIXED: &[&str] = &[
    "1:30", "rad(0)", "deg(1)", "2", "pi", "deg(1:30)", "rad(1:30)", "deg(rad(1))", "0:0:30.5", "(1+2)", "-3", "rad(deg(2))", ".inf", "1e3",
    "deg(rad(0) + 1:30)", "12:00:00", "rad(deg(1:30))", "0.1",
];


// ------------------------------------------------------------------ identities / grouping / unit relations (no value table needed)

#[allow(clippy::too_many_arguments)]
fn rel_json(sig: &str, kind: &str, x: &str, y: &str, tag_x: Tag, tag_y: Tag, ctx: Ctx, zf: bool, target: Target) -> Value {
    json!({"kind": "relation", "sig": sig, "relation": kind, "x": x, "y": y, "tag": tag_x.source(), "tag_y": tag_y.source(),
           "ctx": ctx.name(), "zero_sign_free": zf, "target": target.name()})
}

fn show_r(r: &Result<Num, serde_saphyr::Error>) -> String {
    match r {
        Ok(v) => v.show(),
        Err(e) => format!("Err({})", err_label(e)),
    }
}

/// Evaluate `text` under (tag, ctx) into both targets; None when the document is not confirmed
/// or the library panics (the panic is reported).
fn both(run: &Run, text: &str, tag: Tag, ctx: Ctx) -> Option<(Result<f64, serde_saphyr::Error>, Result<f32, serde_saphyr::Error>)> {
    let Some(d) = build(text, tag, ctx, 0) else {
        run.inconclusive("generator-invalid: raw parser does not confirm the scalar document");
        return None;
    };
    run.evals(2);
    let r = catch(|| (doc::eval::<f64>(&d, ctx, mk_opts(true, false)), doc::eval::<f32>(&d, ctx, mk_opts(true, false))));
    match r {
        Ok(x) => Some(x),
        Err(p) => {
            vio(run, &format!("C19:panic:{}", panic_site(&p)), json!({"kind": "expr", "text": text, "tag": tag.source(), "ctx": ctx.name(), "style": 0, "unlimited": false, "target": "f64"}), p);
            None
        }
    }
}

/// `y` must behave exactly like `x`: both rejected, or the same f64 bits, and the f32 result of `y`
/// is the f32 result of `x` or the f64 result of `x` rounded to f32 (a lone literal is read directly,
/// the same value inside an expression is computed in f64). `zero_sign_free`: x + 0 turns -0 into +0.
#[allow(clippy::too_many_arguments)]
fn same_as(
    run: &Run,
    sig: &str,
    relation: &str,
    x: &str,
    y: &str,
    tag_x: Tag,
    tag_y: Tag,
    ctx: Ctx,
    zero_sign_free: bool,
    l: &mut Local,
) -> bool {
    let (Some((x64, x32)), Some((y64, y32))) = (both(run, x, tag_x, ctx), both(run, y, tag_y, ctx)) else { return false };
    let eq64 = |a: f64, b: f64| dump::f64s(a) == dump::f64s(b) || (zero_sign_free && a == 0.0 && b == 0.0);
    let eq32 = |a: f32, b: f32| dump::f32s(a) == dump::f32s(b) || (zero_sign_free && a == 0.0 && b == 0.0);
    let ok64 = match (&x64, &y64) {
        (Err(_), Err(_)) => true,
        (Ok(a), Ok(b)) => eq64(*a, *b),
        _ => false,
    };
    let ok32 = match (&x32, &y32, &x64) {
        (Err(_), Err(_), _) => true,
        (Ok(a), Ok(b), Ok(a64)) => eq32(*a, *b) || eq32(*a64 as f32, *b),
        _ => false,
    };
    let tagy = if tag_y != tag_x { format!(" [{}]", tag_y.source()) } else { String::new() };
    if !ok64 {
        vio(
            run,
            sig,
            rel_json(sig, relation, x, y, tag_x, tag_y, ctx, zero_sign_free, Target::F64),
            format!("`{x}` -> {} ; `{y}`{tagy} -> {}", show_r(&x64.map(Num::F64)), show_r(&y64.map(Num::F64))),
        );
    } else if !ok32 {
        vio(
            run,
            sig,
            rel_json(sig, relation, x, y, tag_x, tag_y, ctx, zero_sign_free, Target::F32),
            format!("`{x}` -> {} ; `{y}`{tagy} -> {}", show_r(&x32.map(Num::F32)), show_r(&y32.map(Num::F32))),
        );
    } else {
        l.count(if x64.is_ok() { "relations/held_both_ok" } else { "relations/held_both_err" });
        l.count(&format!("relations_by_kind/{relation}"));
        return x64.is_ok();
    }
    false
}

/// Exact IEEE identities and transparent grouping around ANY expression `x` (also the unspecified classes).
fn check_identities(run: &Run, x: &str, tag: Tag, ctx: Ctx, l: &mut Local) {
    let mut any_ok = false;
    // transparent forms: valid under every tag
    for (name, y) in [("parenthesised", format!("({x})")), ("unary-plus", format!("+({x})")), ("double-negation", format!("--({x})")), ("negated-twice", format!("-(-({x}))")), ("double-parenthesised", format!("(({x}))"))] {
        any_ok |= same_as(run, &format!("C19:identity:{name}"), name, x, &y, tag, tag, ctx, false, l);
    }
    // forms that add a bare neutral element: under !degrees a bare term next to a unitized one is a
    // documented error, so these are only compared under the other tags
    if tag != Tag::Degrees {
        for (name, y, zf) in [
            ("times-one", format!("({x})*1"), false),
            ("one-times", format!("1*({x})"), false),
            ("divided-by-one", format!("({x})/1"), false),
            ("minus-zero", format!("({x})-0"), false),
            ("plus-zero", format!("({x})+0"), true),
            ("zero-plus", format!("0+({x})"), true),
            ("times-one-point-zero", format!("({x}) * 1.0"), false),
        ] {
            any_ok |= same_as(run, &format!("C19:identity:{name}"), name, x, &y, tag, tag, ctx, zf, l);
        }
    }
    // the same inside a unit call (bare terms inside deg()/rad() are in that unit): every tag
    for f in ["deg", "rad"] {
        let base = format!("{f}({x})");
        for (name, y) in [("in-unit-call-times-one", format!("{f}(({x})*1)")), ("in-unit-call-minus-zero", format!("{f}(({x})-0)")), ("in-unit-call-parenthesised", format!("{f}(({x}))")), ("in-unit-call-one-times", format!("{f}(1*({x}))"))] {
            any_ok |= same_as(run, &format!("C19:identity:{name}"), name, &base, &y, tag, tag, ctx, false, l);
        }
    }
    if any_ok {
        run.nontrivial(fnv_parts(&[x.as_bytes(), tag.source().as_bytes(), ctx.name().as_bytes(), b"identities"]));
    }
    // f32 result of a computed expression is the f64 result narrowed (FromF64: `v as f32`)
    if has_operator(x)
        && let Some((Ok(a), Ok(b))) = both(run, x, tag, ctx)
    {
        if dump::f32s(a as f32) == dump::f32s(b) {
            l.count("relations/f32_is_f64_result_narrowed");
        } else {
            vio(
                run,
                "C19:f32-not-narrowed-from-f64-result",
                json!({"kind": "relation-f32", "x": x, "tag": tag.source(), "ctx": ctx.name()}),
                format!("f64 {} (as f32 {}) but f32 {}", Num::F64(a).show(), Num::F32(a as f32).show(), Num::F32(b).show()),
            );
        }
    }
}

/// `(A) op (B)` vs `A op B` (operands rendered so that precedence allows the bare form).
fn check_grouping(run: &Run, a: &str, b: &str, op: char, tag: Tag, ctx: Ctx, l: &mut Local) {
    let x = format!("{a} {op} {b}");
    let mut any_ok = false;
    for (name, y) in [("group-both", format!("({a}) {op} ({b})")), ("group-left", format!("({a}) {op} {b}")), ("group-right", format!("{a} {op} ({b})")), ("group-all", format!("(({a}){op}({b}))"))] {
        any_ok |= same_as(run, "C19:parenthesisation:grouping-changes-result", name, &x, &y, tag, tag, ctx, false, l);
    }
    if any_ok {
        run.nontrivial(fnv_parts(&[x.as_bytes(), tag.source().as_bytes(), ctx.name().as_bytes(), b"grouping"]));
    }
}

/// For an expression `x` without unit functions / sexagesimal forms:
/// `rad(x)`, `!radians x`, `!radians rad(x)` and `x` are the same number; `deg(x)`, `!degrees x`,
/// `!degrees deg(x)`, `!radians deg(x)` are x converted once (any of the admitted roundings of x*pi/180).
fn check_unit_vs_tag(run: &Run, x: &str, ctx: Ctx, l: &mut Local) {
    for (name, y, ty) in [
        ("rad-call", format!("rad({x})"), Tag::None),
        ("radians-tag", x.to_string(), Tag::Radians),
        ("radians-tag-rad-call", format!("rad({x})"), Tag::Radians),
        ("degrees-tag-rad-call", format!("rad({x})"), Tag::Degrees),
        ("float-tag", x.to_string(), Tag::Float),
    ] {
        if same_as(run, "C19:rad-function-vs-radians-tag", name, x, &y, Tag::None, ty, ctx, false, l) {
            run.nontrivial(fnv_parts(&[x.as_bytes(), name.as_bytes(), ctx.name().as_bytes(), b"rad-vs-tag"]));
        }
    }
    let Some((Ok(v), _)) = both(run, x, Tag::None, ctx) else { return };
    let cands = refeval::deg2rad_all(v);
    for (name, y, ty) in [
        ("deg-call", format!("deg({x})"), Tag::None),
        ("degrees-tag", x.to_string(), Tag::Degrees),
        ("degrees-tag-parenthesised", format!("({x})"), Tag::Degrees),
        ("degrees-tag-deg-call", format!("deg({x})"), Tag::Degrees),
        ("radians-tag-deg-call", format!("deg({x})"), Tag::Radians),
    ] {
        let Some((r64, r32)) = both(run, &y, ty, ctx) else { continue };
        let ok = match (&r64, &r32) {
            (Ok(a), Ok(b)) => matches64(&cands, *a) && matches32(&cands.iter().map(|c| *c as f32).collect::<Vec<_>>(), *b),
            _ => false,
        };
        if ok {
            l.count("relations/held_both_ok");
            l.count(&format!("relations_by_kind/{name}"));
            run.nontrivial(fnv_parts(&[x.as_bytes(), y.as_bytes(), ty.source().as_bytes(), ctx.name().as_bytes(), b"deg"]));
        } else {
            vio(
                run,
                "C19:deg-function-vs-degrees-tag",
                json!({"kind": "relation-deg", "relation": name, "x": x, "y": y, "tag_y": ty.source(), "ctx": ctx.name()}),
                format!("`{x}` -> {} ; `{y}` [{}] -> {} / {} ; expected x converted once: {}", Num::F64(v).show(), ty.source(), show_r(&r64.map(Num::F64)), show_r(&r32.map(Num::F32)), cands.iter().map(|c| Num::F64(*c).show()).collect::<Vec<_>>().join(" | ")),
            );
        }
    }
}

// ------------------------------------------------------------------ number lexing family

const NUM_SIGNS: &[&str] = &["", "+", "-"];
const NUM_MANTISSAS: &[&str] = &["1", "12", "123", "1.5", "12.34", "0.125", ".5", "5.", "100.001", "9007199254740993", "0.1", "123456.789"];
const NUM_EXPONENTS: &[&str] = &["", "e5", "E5", "e+5", "e-5", "e10", "e-10", "e+10", "e-123", "e05", "E-07"];

/// All insertions of one or two `_` at any position of `base` (valid and invalid placements).
fn underscore_variants(base: &str) -> Vec<String> {
    let cs: Vec<char> = base.chars().collect();
    let mut out = vec![base.to_string()];
    for p in 0..=cs.len() {
        let mut s: Vec<char> = cs.clone();
        s.insert(p, '_');
        out.push(s.iter().collect());
        for q in p..=cs.len() {
            let mut s2 = s.clone();
            s2.insert(q + 1, '_');
            out.push(s2.iter().collect());
        }
    }
    out
}

fn check_numlex(run: &Run, base: &str, l: &mut Local) {
    for v in underscore_variants(base) {
        let stripped: String = v.chars().filter(|c| *c != '_').collect();
        for tag in [Tag::None, Tag::Radians, Tag::Degrees, Tag::Float] {
            for (pre, post) in [("", ""), ("2*(", ")"), ("deg(", ")"), ("1 - ", "")] {
                let text = format!("{pre}{v}{post}");
                // reference model: placement rules + value
                check_expr(run, &ExprCase { text: &text, tag, ctx: Ctx::Root, style: 0, unlimited: false, family: "number-lexing", hash_nt: true }, None, l);
                // the same literal without separators: identical result whenever the separators are accepted
                if v != stripped && matches!(reference(&text, tag).0, Verdict::Value(_)) {
                    let plain = format!("{pre}{stripped}{post}");
                    if same_as(run, "C19:separator-changes-value", "separators-removed", &plain, &text, tag, tag, Ctx::Root, false, l) {
                        run.nontrivial(fnv_parts(&[text.as_bytes(), tag.source().as_bytes(), b"separators"]));
                    }
                }
            }
        }
    }
}

/// Arbitrary bytes (mostly not UTF-8) as a whole document through the slice entry point: totality only.
fn check_rawbytes(run: &Run, d: &[u8], cal: &Calib) {
    for target in ["f64", "f32", "any"] {
        run.eval();
        let case = || json!({"kind": "rawbytes", "bytes": d, "target": target});
        let r = timed(run, Some(cal), d.len(), "rawbytes", case, || {
            catch(|| match target {
                "f64" => serde_saphyr::from_slice_with_options::<f64>(d, mk_opts(true, false)).is_ok(),
                "f32" => serde_saphyr::from_slice_with_options::<f32>(d, mk_opts(true, false)).is_ok(),
                _ => serde_saphyr::from_slice_with_options::<dump::Any>(d, mk_opts(true, false)).is_ok(),
            })
        });
        if let Err(p) = r {
            vio(run, &format!("C19:panic:{}", panic_site(&p)), case(), p);
        }
    }
}

// ------------------------------------------------------------------ plain literals: option on vs off

fn plain_case_json(text: &str, docu: &str, target: &str) -> Value {
    json!({"kind": "plain", "text": text, "doc": docu, "target": target})
}

fn check_plain(run: &Run, text: &str, style: u8, witness: bool, l: &mut Local) {
    let Some(docu) = build(text, Tag::None, Ctx::Root, style) else {
        run.inconclusive("generator-invalid: raw parser does not confirm the scalar document");
        return;
    };
    let unspec = corpus::unspecified_literal(text);
    for target in ["f32", "f64", "any"] {
        let f = |on: bool| match target {
            "f32" => dump::dump_f32(&docu, on),
            "f64" => dump::dump_f64(&docu, on),
            _ => dump::dump_any(&docu, on),
        };
        run.evals(2);
        let (off, on) = match catch(|| (f(false), f(true))) {
            Ok(x) => x,
            Err(p) => {
                vio(run, &format!("C19:panic:{}", panic_site(&p)), plain_case_json(text, &docu, target), p);
                continue;
            }
        };
        if on == "PANIC" || off == "PANIC" {
            // get the site
            let p = catch(|| {
                let _ = serde_saphyr::from_str_with_options::<dump::Any>(&docu, mk_opts(on == "PANIC", false));
                let _ = serde_saphyr::from_str_with_options::<f64>(&docu, mk_opts(on == "PANIC", false));
            })
            .err()
            .unwrap_or_else(|| "<panic> @ unknown:0:0".into());
            vio(run, &format!("C19:panic:{}", panic_site(&p)), plain_case_json(text, &docu, target), p);
            continue;
        }
        if !off.starts_with("ok:") {
            l.count(if on.starts_with("ok:") { "plain/off_err_on_ok (extension syntax)" } else { "plain/both_err" });
            continue;
        }
        if target == "any" && off.starts_with("ok:str:") {
            // not a number without the extension
            l.count("plain/untyped_string_without_extension");
            continue;
        }
        if off == on {
            l.count("plain/unchanged");
            if witness {
                run.nontrivial(fnv_parts(&[docu.as_bytes(), target.as_bytes(), b"plain"]));
            }
            continue;
        }
        if let Some(cl) = unspec {
            l.count(&format!("unspecified/{cl}"));
            continue;
        }
        let shape = if on.starts_with("ok:") { "ok-vs-ok" } else { "ok-vs-err" };
        let mut sig = format!("C19:plain-literal-changed:{target}:{shape}");
        if target == "f32"
            && let Ok(v64) = text.trim().parse::<f64>()
            && on == format!("ok:{}", dump::f32s(v64 as f32))
        {
            sig = "C19:plain-literal-changed:f32:double-rounding".into();
        }
        vio(run, &sig, plain_case_json(text, &docu, target), format!("option off: {off} ; option on: {on}"));
    }
}

// ------------------------------------------------------------------ big / deep inputs

#[derive(Clone, Debug, PartialEq)]
enum BigExpect {
    Fail,
    Val(f64),
    Any,
}

const BIG_FAMILIES: &[&str] = &[
    "paren-open", "paren-balanced", "func-nest", "mul-nest", "sign-run", "sum-chain", "digits", "frac-digits", "exp-digits",
    "sexa-deg-digits", "sexa-min-digits", "sexa-frac-digits", "underscore-digits", "ws-run", "ident-run", "dot-run", "colon-run",
    "mixed-nest",
];

fn big_input(family: &str, n: usize) -> (String, BigExpect) {
    let rep = |s: &str, n: usize| s.repeat(n);
    let by_depth = |v: f64| if n <= SURE_DEPTH { BigExpect::Val(v) } else if n > MAX_DEPTH { BigExpect::Fail } else { BigExpect::Any };
    match family {
        "paren-open" => (format!("{}1", rep("(", n)), BigExpect::Fail),
        "paren-balanced" => (format!("{}1{}", rep("(", n), rep(")", n)), by_depth(1.0)),
        "func-nest" => (format!("{}1{}", rep("deg(", n), rep(")", n)), if n > MAX_DEPTH { BigExpect::Fail } else { BigExpect::Any }),
        "mul-nest" => (format!("{}1{}", rep("2*(", n), rep(")", n)), by_depth(2f64.powi(n as i32))),
        "mixed-nest" => (format!("{}1{}", rep("(1+rad(", n), rep("))", n)), if 2 * n > MAX_DEPTH { BigExpect::Fail } else { BigExpect::Any }),
        "sign-run" => (format!("{}1", rep("-", n)), BigExpect::Val(if n % 2 == 1 { -1.0 } else { 1.0 })),
        "sum-chain" => (format!("{}1", rep("1+", n)), BigExpect::Val((n + 1) as f64)),
        "digits" => {
            let t = rep("7", n);
            let e = if n <= 1_000_000 { BigExpect::Val(t.parse().unwrap()) } else { BigExpect::Any };
            (t, e)
        }
        "frac-digits" => {
            let t = format!("0.{}", rep("3", n));
            let e = if n < 1_000_000 { BigExpect::Val(t.parse().unwrap()) } else { BigExpect::Any };
            (t, e)
        }
        "exp-digits" => (format!("1e{}1", rep("0", n)), if n + 2 <= 1_000_000 { BigExpect::Val(10.0) } else { BigExpect::Any }),
        "sexa-deg-digits" => (format!("{}:30", rep("1", n)), BigExpect::Any),
        "sexa-min-digits" => (format!("1:{}5", rep("0", n)), BigExpect::Any),
        "sexa-frac-digits" => (format!("1:2:3.{}", rep("3", n)), BigExpect::Any),
        "underscore-digits" => {
            let e = if n + 1 <= 1_000_000 { BigExpect::Val(rep("1", n + 1).parse().unwrap()) } else { BigExpect::Any };
            (format!("{}1", rep("1_", n)), e)
        }
        "ws-run" => (format!("{}1{}", rep(" ", n), rep("\t", n)), BigExpect::Val(1.0)),
        "ident-run" => (rep("a", n), BigExpect::Fail),
        "dot-run" => (rep(".", n), BigExpect::Fail),
        _ => (format!("1{}", rep(":1", n)), if n >= 3 { BigExpect::Fail } else { BigExpect::Any }),
    }
}

fn big_doc(text: &str) -> String {
    format!("{}\n", vcore::ydoc::dq_escape(text))
}

fn big_case_json(family: &str, n: usize, target: Target, child: bool) -> Value {
    json!({"kind": if child { "child" } else { "big" }, "family": family, "n": n, "target": target.name()})
}

/// Compare an outcome line (`ok:<bits>` / `err:..` / `PANIC:..`) with the expectation.
fn judge_big(run: &Run, family: &str, n: usize, target: Target, outcome: &str, child: bool, l: &mut Local) {
    let (_, expect) = big_input(family, n);
    let case = big_case_json(family, n, target, child);
    if let Some(p) = outcome.strip_prefix("PANIC:") {
        vio(run, &format!("C19:panic:{}", panic_site(p)), case, p.to_string());
        return;
    }
    match (&expect, outcome.strip_prefix("ok:")) {
        (BigExpect::Fail, Some(v)) => {
            vio(run, &format!("C19:accepted:big:{family}"), case, format!("must be rejected (n = {n}) but evaluated to {v}"));
        }
        (BigExpect::Val(x), Some(v)) => {
            let want = match target {
                Target::F64 => dump::f64s(*x),
                Target::F32 => dump::f32s(*x as f32),
            };
            // digits families: a lone literal into f32 may also be the direct f32 reading
            let alt = if target == Target::F32 && matches!(family, "digits" | "frac-digits" | "exp-digits" | "underscore-digits") {
                big_input(family, n).0.replace('_', "").parse::<f32>().ok().map(dump::f32s)
            } else {
                None
            };
            if v == want || alt.as_deref() == Some(v) {
                l.count("big/value_held");
                run.nontrivial(fnv_parts(&[family.as_bytes(), &n.to_le_bytes(), target.name().as_bytes(), &[child as u8]]));
            } else {
                vio(run, &format!("C19:value:{}:big:{family}", target.name()), case, format!("library {v}, expected {want} (n = {n})"));
            }
        }
        (BigExpect::Val(_), None) => {
            vio(run, &format!("C19:rejected-valid:big:{family}"), case, format!("n = {n}: {outcome}"));
        }
        (BigExpect::Fail, None) => {
            l.count("big/reject_held");
            run.nontrivial(fnv_parts(&[family.as_bytes(), &n.to_le_bytes(), target.name().as_bytes(), &[child as u8]]));
        }
        (BigExpect::Any, _) => l.count("unspecified/big-input-class"),
    }
}

fn big_outcome(docu: &str, target: Target) -> String {
    match lib_eval(docu, Ctx::Root, target, true, true) {
        Err(p) => format!("PANIC:{p}"),
        Ok(Ok(Num::F64(v))) => format!("ok:{}", dump::f64s(v)),
        Ok(Ok(Num::F32(v))) => format!("ok:{}", dump::f32s(v)),
        Ok(Err(e)) => format!("err:{}", err_label(&e)),
    }
}

fn check_big_inprocess(run: &Run, family: &str, n: usize, calib: &Calib, l: &mut Local) {
    // nesting families beyond 10^4 levels only in the child: if the depth guard were missing the
    // recursion would exhaust even the 1 GiB worker stack and take the harness down with it
    if n > 10_000 && matches!(family, "paren-open" | "paren-balanced" | "func-nest" | "mul-nest" | "mixed-nest") {
        l.count("big/nesting_family_left_to_child_process");
        return;
    }
    let (text, _) = big_input(family, n);
    let docu = big_doc(&text);
    if text.len() <= 200_000 && !doc::confirm(&docu, &text, Tag::None, Ctx::Root) {
        run.inconclusive("generator-invalid: big input not confirmed by the raw parser");
        return;
    }
    for target in [Target::F64, Target::F32] {
        run.eval();
        let out = timed(run, Some(calib), docu.len(), family, || big_case_json(family, n, target, false), || big_outcome(&docu, target));
        judge_big(run, family, n, target, &out, false, l);
    }
}

/// `c19 --child <family> <n> <f64|f32>`: evaluate on the main thread (stack = RLIMIT_STACK).
fn child_main(args: &[String]) -> ! {
    let family = args.first().map(|s| s.as_str()).unwrap_or("");
    let n: usize = args.get(1).and_then(|s| s.parse().ok()).unwrap_or(0);
    let target = if args.get(2).map(|s| s.as_str()) == Some("f32") { Target::F32 } else { Target::F64 };
    let (text, _) = big_input(family, n);
    let docu = big_doc(&text);
    println!("RESULT {}", big_outcome(&docu, target));
    std::process::exit(0);
}

fn check_big_child(run: &Run, family: &str, n: usize, target: Target, calib: &Calib, l: &mut Local) {
    let exe = match std::env::current_exe() {
        Ok(e) => e,
        Err(_) => {
            run.inconclusive("child: current_exe unavailable");
            return;
        }
    };
    let (text, _) = big_input(family, n);
    let bound = calib.hard(text.len() + 3);
    let cpu_limit = bound.ceil() as u64 + 2;
    let args = vec!["--child".to_string(), family.to_string(), n.to_string(), target.name().to_string()];
    run.eval();
    let out = match vcore::obs::run_child(&exe, &args, None, Some(8 << 20), None, Some(cpu_limit), cpu_limit * 3 + 30) {
        Ok(o) => o,
        Err(_) => {
            run.inconclusive("child: spawn failed");
            return;
        }
    };
    let case = big_case_json(family, n, target, true);
    run.max("child_max_cpu_ms", ((out.user_s + out.sys_s) * 1e3) as u64);
    if out.timed_out {
        run.inconclusive("child: wall-clock watchdog fired");
        return;
    }
    if let Some(sig) = out.signal {
        if sig == libc::SIGXCPU || (sig == libc::SIGKILL && out.user_s + out.sys_s >= bound) {
            vio(run, 
                &format!("C19:cpu-bound-exceeded:{family}"),
                case,
                format!("child used {:.1}s CPU (> 10^4 x typical = {bound:.1}s) for {} bytes", out.user_s + out.sys_s, text.len()),
            );
        } else if sig == libc::SIGSEGV || sig == libc::SIGABRT || sig == libc::SIGBUS || sig == libc::SIGILL {
            vio(run, 
                &format!("C19:child-crash:{family}"),
                case,
                format!("child with 8 MiB stack died with signal {sig} (n = {n}); stderr: {}", out.stderr.chars().take(300).collect::<String>()),
            );
        } else {
            run.inconclusive("child: killed by an unrelated signal");
        }
        return;
    }
    let Some(line) = out.stdout.lines().find_map(|l| l.strip_prefix("RESULT ")) else {
        run.inconclusive("child: no RESULT line");
        return;
    };
    l.count("child/completed");
    judge_big(run, family, n, target, line, true, l);
}


// ------------------------------------------------------------------ smoke set in a CPU-limited child

/// A small representative input set evaluated first in a child under RLIMIT_CPU: an
/// unbounded loop in the evaluator becomes a reported violation (SIGXCPU) instead of
/// hanging the in-process sections until the wall-clock watchdog (which is no verdict).
fn smoke_inputs(seed: u64) -> Vec<String> {
    let mut texts: Vec<(String, Tag)> = Vec::new();
    let tags = [Tag::None, Tag::Degrees, Tag::Radians];
    for i in 0..space_size(TOKENS_A.len(), 3) {
        if i < space_size(TOKENS_A.len(), 2) || i % 5 == 0 {
            texts.push((nth_string(TOKENS_A, i, 3), tags[i % 3]));
        }
    }
    for i in 0..space_size(TOKENS_B.len(), 3) {
        if i < space_size(TOKENS_B.len(), 2) || i % 3 == 0 {
            texts.push((nth_string(TOKENS_B, i, 3), tags[i % 3]));
        }
    }
    for i in 0..150u64 {
        let mut rng = Rng::stream(seed ^ 0x44, i);
        texts.push((exprgen::soup(&mut rng), tags[i as usize % 3]));
    }
    for i in 0..100u64 {
        let mut rng = Rng::stream(seed ^ 0x55, i);
        let k = exprgen::Knobs { func: 2, sexa: 2, special: 1, nl: false };
        let g = exprgen::gen_expr(&mut rng, 4, &k, false);
        texts.push((exprgen::mutate(&mut rng, &g.txt), tags[i as usize % 3]));
        texts.push((g.txt, tags[i as usize % 3]));
    }
    for (t, tag) in [("1.5 + 2*(3 - 4/5)", Tag::None), ("deg(8:32:53.2)", Tag::None), ("-0:30:30.5", Tag::None), ("180", Tag::Degrees)] {
        texts.push((t.to_string(), tag));
    }
    texts.into_iter().filter_map(|(t, tag)| build(&t, tag, Ctx::Root, 0)).collect()
}

/// `c19 --child-smoke <seed> [index]`
fn smoke_child_main(args: &[String]) -> ! {
    use std::io::Write;
    let seed: u64 = args.first().and_then(|s| s.parse().ok()).unwrap_or(1);
    let only: Option<usize> = args.get(1).and_then(|s| s.parse().ok());
    let docs = smoke_inputs(seed);
    let err = std::io::stderr();
    for (i, d) in docs.iter().enumerate() {
        if only.is_some_and(|o| o != i) {
            continue;
        }
        let _ = writeln!(err.lock(), "AT {i}");
        let _ = lib_eval(d, Ctx::Root, Target::F64, true, false);
        let _ = lib_eval(d, Ctx::Root, Target::F32, true, false);
    }
    println!("SMOKE-DONE {}", docs.len());
    std::process::exit(0);
}

/// Returns false when the in-process sections must not be started.
fn run_smoke(run: &Run, only: Option<usize>) -> bool {
    let Ok(exe) = std::env::current_exe() else {
        run.inconclusive("smoke: current_exe unavailable");
        return true;
    };
    let docs = smoke_inputs(run.seed);
    // provisional typical cost (measured on this class of machine: ~1.4 us + 20 ns/byte per call)
    let provisional = Calib { base_s: 2e-6, per_byte_s: 25e-9 };
    let typical: f64 = docs.iter().enumerate().filter(|(i, _)| only.is_none_or(|o| o == *i)).map(|(_, d)| 2.0 * provisional.typical(d.len())).sum();
    let bound = (1e4 * typical).max(20.0);
    let mut args = vec!["--child-smoke".to_string(), run.seed.to_string()];
    if let Some(o) = only {
        args.push(o.to_string());
    }
    let limit = bound.ceil() as u64 + 1;
    let out = match vcore::obs::run_child(&exe, &args, None, Some(8 << 20), None, Some(limit), limit * 3 + 30) {
        Ok(o) => o,
        Err(_) => {
            run.inconclusive("smoke: spawn failed");
            return true;
        }
    };
    run.evals(2 * docs.len() as u64);
    run.count("smoke/documents", docs.len() as u64);
    run.max("smoke/cpu_ms", ((out.user_s + out.sys_s) * 1e3) as u64);
    let last: Option<usize> = out.stderr.lines().rev().find_map(|l| l.strip_prefix("AT ").and_then(|n| n.parse().ok()));
    let case = json!({"kind": "smoke", "seed": run.seed, "index": last, "doc": last.and_then(|i| docs.get(i))});
    if out.stdout.contains("SMOKE-DONE") && out.exit_code == Some(0) {
        run.count("smoke/completed", 1);
        return true;
    }
    if out.timed_out {
        run.inconclusive("smoke: wall-clock watchdog fired before the CPU limit");
        return true;
    }
    let cpu = out.user_s + out.sys_s;
    match out.signal {
        Some(sig) if sig == libc::SIGXCPU || (sig == libc::SIGKILL && cpu >= bound) => {
            vio(run, "C19:cpu-bound-exceeded:smoke-set", case, format!("child used {cpu:.1}s CPU on a set whose typical total is {typical:.4}s (bound 10^4 x = {bound:.1}s); last input started: {last:?}"));
            false
        }
        Some(sig) if sig == libc::SIGSEGV || sig == libc::SIGABRT || sig == libc::SIGBUS || sig == libc::SIGILL => {
            vio(run, "C19:child-crash:smoke-set", case, format!("child with 8 MiB stack died with signal {sig}; last input started: {last:?}; stderr tail: {}", out.stderr.lines().rev().take(3).collect::<Vec<_>>().join(" | ")));
            false
        }
        _ => {
            run.inconclusive("smoke: child ended without result");
            true
        }
    }
}

// ------------------------------------------------------------------ cross-build comparison (c19nr)

fn harness_dir() -> PathBuf {
    vcore::run::verif_root().join("harness")
}

fn build_nr() -> Result<PathBuf, String> {
    let h = harness_dir();
    let tdir = h.join("target-nr");
    let out = std::process::Command::new("cargo")
        .current_dir(&h)
        .env("CARGO_NET_OFFLINE", "true")
        .args(["build", "--release", "-p", "c19nr", "--target-dir"])
        .arg(&tdir)
        .output()
        .map_err(|e| format!("cannot run cargo: {e}"))?;
    if !out.status.success() {
        let err = String::from_utf8_lossy(&out.stderr);
        let tail: Vec<&str> = err.lines().rev().take(30).collect();
        return Err(format!("cargo build -p c19nr failed:\n{}", tail.into_iter().rev().collect::<Vec<_>>().join("\n")));
    }
    let exe = tdir.join("release").join("c19nr");
    if !exe.exists() {
        return Err(format!("{} missing after build", exe.display()));
    }
    Ok(exe)
}

/// Runs c19nr over `docs`; returns (off lines, on lines) or a harness error text.
fn run_nr(exe: &PathBuf, docs: &[String]) -> Result<(Vec<String>, Vec<String>), String> {
    let dir = vcore::run::verif_root().join("replays").join("tmp");
    std::fs::create_dir_all(&dir).map_err(|e| format!("mkdir {}: {e}", dir.display()))?;
    let path = dir.join(format!("c19-corpus-{}-{:x}.json", std::process::id(), docs.len()));
    std::fs::write(&path, serde_json::to_string(docs).unwrap()).map_err(|e| format!("write corpus: {e}"))?;
    let out = vcore::obs::run_child(exe, &[path.display().to_string()], None, None, None, None, 1200);
    let _ = std::fs::remove_file(&path);
    let out = out.map_err(|e| format!("spawn c19nr: {e}"))?;
    if out.timed_out || out.exit_code != Some(0) {
        return Err(format!("c19nr exit {:?} signal {:?} timed_out {} stderr {}", out.exit_code, out.signal, out.timed_out, out.stderr.chars().take(300).collect::<String>()));
    }
    let mut off = vec![String::new(); docs.len()];
    let mut on = vec![String::new(); docs.len()];
    let mut probe = None;
    let mut end = None;
    for line in out.stdout.lines() {
        if let Some(p) = line.strip_prefix("PROBE ") {
            probe = Some(p.to_string());
        } else if let Some(n) = line.strip_prefix("END ") {
            end = n.parse::<usize>().ok();
        } else {
            let mut it = line.splitn(3, '\t');
            let (Some(i), Some(mode), Some(rest)) = (it.next(), it.next(), it.next()) else { continue };
            let Ok(i) = i.parse::<usize>() else { continue };
            if i < docs.len() {
                if mode == "off" {
                    off[i] = rest.to_string();
                } else {
                    on[i] = rest.to_string();
                }
            }
        }
    }
    if end != Some(docs.len()) {
        return Err("c19nr output truncated".into());
    }
    match probe {
        Some(p) if p.starts_with("err:") => {}
        Some(p) => return Err(format!("c19nr evaluates `2*pi` ({p}): it was built WITH the robotics feature (feature unification?) — comparison impossible")),
        None => return Err("c19nr printed no PROBE line".into()),
    }
    Ok((off, on))
}

fn compare_nr(run: &Run, docs: &[String], off_nr: &[String], on_nr: &[String]) {
    par_chunks(run, docs.len(), 256, |i, l| {
        let d = &docs[i];
        run.evals(3);
        let here = match catch(|| dump::dump_doc(d, false)) {
            Ok(s) => s,
            Err(p) => {
                vio(run, &format!("C19:panic:{}", panic_site(&p)), json!({"kind": "nr", "doc": d}), p);
                return;
            }
        };
        l.add("nr/child_evaluations", 6);
        if here != off_nr[i] {
            vio(run, 
                "C19:feature-build-differs:option-off",
                json!({"kind": "nr", "doc": d}),
                format!("with feature, option off: {here} ; without feature, option off: {}", off_nr[i]),
            );
        } else if on_nr[i] != off_nr[i] {
            vio(run, 
                "C19:option-effective-without-feature",
                json!({"kind": "nr", "doc": d}),
                format!("without feature, option off: {} ; option on: {}", off_nr[i], on_nr[i]),
            );
        } else {
            l.count("nr/identical");
            if here.contains("ok:") {
                l.count("nr/identical_with_ok_outcome");
            }
        }
    });
}

// ------------------------------------------------------------------ exhaustive spaces

const TOKENS_A: &[&str] = &["3", "0.7", "pi", "+", "-", "*", "/", "(", ")", "deg(", "rad(", "1:30", " "];
const TOKENS_B: &[&str] = &["1", "5", "_", ".", "e", "-", "+", ":", "60"];
const TOKENS_D: &[&str] = &["pi", "tau", ".inf", ".nan", "0", "-", "/", "*", "(", ")", "1e400"];
const TOKENS_C: &[&str] = &["deg(", "rad(", "(", ")", "+", "-", "*", "1:30", "90", "tau", ".inf"];

fn space_size(k: usize, max_len: usize) -> usize {
    (1..=max_len).map(|l| k.pow(l as u32)).sum()
}

fn nth_string(alpha: &[&str], mut i: usize, max_len: usize) -> String {
    let k = alpha.len();
    let mut len = 1;
    while len <= max_len {
        let c = k.pow(len as u32);
        if i < c {
            break;
        }
        i -= c;
        len += 1;
    }
    let mut s = String::new();
    let mut parts = Vec::with_capacity(len);
    for _ in 0..len {
        parts.push(alpha[i % k]);
        i /= k;
    }
    for p in parts.iter().rev() {
        s.push_str(p);
    }
    s
}

// ------------------------------------------------------------------ replay

fn replay(run: &Run, case: &Value) {
    let mut l = Local::default();
    let s = |k: &str| case[k].as_str().unwrap_or("").to_string();
    match s("kind").as_str() {
        "expr" => {
            let text = s("text");
            let c = ExprCase {
                text: &text,
                tag: Tag::from_source(&s("tag")),
                ctx: Ctx::from_name(&s("ctx")),
                style: case["style"].as_u64().unwrap_or(0) as u8,
                unlimited: case["unlimited"].as_bool().unwrap_or(false),
                family: "replay",
                hash_nt: true,
            };
            let cal = Calib::measure();
            check_expr(run, &c, Some(&cal), &mut l);
        }
        "plain" => check_plain(run, &s("text"), 0, true, &mut l),
        "big" => {
            let cal = Calib::measure();
            check_big_inprocess(run, &s("family"), case["n"].as_u64().unwrap_or(0) as usize, &cal, &mut l);
        }
        "child" => {
            let cal = Calib::measure();
            let t = if s("target") == "f32" { Target::F32 } else { Target::F64 };
            check_big_child(run, &s("family"), case["n"].as_u64().unwrap_or(0) as usize, t, &cal, &mut l);
        }
        "nr" => match build_nr().and_then(|exe| run_nr(&exe, &[s("doc")])) {
            Ok((off, on)) => compare_nr(run, &[s("doc")], &off, &on),
            Err(e) => {
                eprintln!("harness error: {e}");
                std::process::exit(2);
            }
        },
        "commute" => {
            let op = s("op").chars().next().unwrap_or('+');
            check_commute(run, &s("a"), &s("b"), op, case["wrapper"].as_u64().unwrap_or(0) as usize, Tag::from_source(&s("tag")), Ctx::from_name(&s("ctx")), &mut l);
        }
        "relation" => {
            same_as(
                run,
                &s("sig"),
                &s("relation"),
                &s("x"),
                &s("y"),
                Tag::from_source(&s("tag")),
                Tag::from_source(&s("tag_y")),
                Ctx::from_name(&s("ctx")),
                case["zero_sign_free"].as_bool().unwrap_or(false),
                &mut l,
            );
        }
        "relation-f32" => check_identities(run, &s("x"), Tag::from_source(&s("tag")), Ctx::from_name(&s("ctx")), &mut l),
        "relation-deg" => check_unit_vs_tag(run, &s("x"), Ctx::from_name(&s("ctx")), &mut l),
        "rawbytes" => {
            let b: Vec<u8> = case["bytes"].as_array().map(|a| a.iter().filter_map(|v| v.as_u64().map(|v| v as u8)).collect()).unwrap_or_default();
            let cal = Calib::measure();
            check_rawbytes(run, &b, &cal);
        }
        "smoke" => {
            run_smoke(run, case["index"].as_u64().map(|i| i as usize));
        }
        "rawdoc" => {
            let d = s("doc");
            let cal = Calib::measure();
            check_rawdoc(run, &d, &cal);
        }
        k => {
            eprintln!("harness error: unknown replay kind {k:?}");
            std::process::exit(2);
        }
    }
    l.flush(run);
}

/// An arbitrary string as a whole document (not as a confirmed scalar): totality only.
fn check_rawdoc(run: &Run, d: &str, cal: &Calib) {
    for target in ["f64", "f32", "any"] {
        run.eval();
        let case = || json!({"kind": "rawdoc", "doc": d, "target": target});
        let r = timed(run, Some(cal), d.len(), "rawdoc", case, || {
            catch(|| match target {
                "f64" => serde_saphyr::from_str_with_options::<f64>(d, mk_opts(true, false)).is_ok(),
                "f32" => serde_saphyr::from_str_with_options::<f32>(d, mk_opts(true, false)).is_ok(),
                _ => serde_saphyr::from_str_with_options::<dump::Any>(d, mk_opts(true, false)).is_ok(),
            })
        });
        if let Err(p) = r {
            vio(run, &format!("C19:panic:{}", panic_site(&p)), case(), p);
        }
    }
}

// ------------------------------------------------------------------ main

fn main() {
    let args: Vec<String> = std::env::args().collect();
    if args.get(1).map(|s| s.as_str()) == Some("--child") {
        child_main(&args[2..]);
    }
    if args.get(1).map(|s| s.as_str()) == Some("--child-smoke") {
        vcore::obs::install_quiet_panic_hook();
        smoke_child_main(&args[2..]);
    }
    let run = Run::from_args("C19");
    // everything on a big stack (reference parser recursion, replay on the main thread)
    let run = std::thread::Builder::new().stack_size(1 << 30).spawn(move || real_main(run)).unwrap().join();
    if run.is_err() {
        eprintln!("harness error: check thread panicked");
        std::process::exit(2);
    }
}

fn process_cpu_s() -> f64 {
    let mut ts = libc::timespec { tv_sec: 0, tv_nsec: 0 };
    unsafe { libc::clock_gettime(libc::CLOCK_PROCESS_CPUTIME_ID, &mut ts) };
    ts.tv_sec as f64 + ts.tv_nsec as f64 / 1e9
}

fn mark(run: &Run, what: &str) {
    run.note(format!("t+{:.1}s wall, {:.0}s process CPU: {what} done", run.elapsed_s(), process_cpu_s()));
}

fn real_main(run: Run) {
    if let Some(rep) = run.is_replay() {
        let case = rep["case"].clone();
        replay(&run, &case);
        run.finish(Finish::new("replay"));
    }
    let tier = run.tier;
    let seed = run.seed;

    // c19nr build in the background (first build takes about a minute)
    let nr_build = std::thread::spawn(build_nr);

    // ---- smoke set under RLIMIT_CPU before anything runs in this process
    if !run_smoke(&run, None) {
        run.note("smoke set failed in the child: in-process sections skipped (they would hang or crash this process)");
        flush_violation_counts(&run);
        run.finish(Finish::new("smoke set only (child process under RLIMIT_CPU / 8 MiB stack)"));
    }
    mark(&run, "smoke child");

    let calib = Calib::measure();
    run.note(format!("cpu calibration: base {:.2} us per call, {:.2} ns per byte", calib.base_s * 1e6, calib.per_byte_s * 1e9));

    // ---- 0. model self-test + library smoke on the README examples (exact documented values)
    {
        let mut l = Local::default();
        let readme: &[(&str, Tag)] = &[
            ("0.15", Tag::Radians),
            ("180", Tag::Degrees),
            ("1 + 2*(3 - 4/5)", Tag::None),
            ("deg(180)", Tag::None),
            ("rad(pi)", Tag::None),
            ("-0:30:30.5", Tag::None),
            ("8:32:53.2", Tag::Radians),
            ("8:32:53.2", Tag::Degrees),
            ("deg(8:32:53.2)", Tag::None),
            ("2*pi", Tag::None),
            ("pi/2", Tag::None),
            ("TAU", Tag::None),
            ("deg(90)", Tag::Degrees),
            ("rad(2*pi)", Tag::Degrees),
            ("deg(30:0:0) + 0.001", Tag::Radians),
            ("30:0:0 + 90", Tag::Degrees),
            ("deg(90) + 90", Tag::Degrees),
            ("rad(1) + pi/2", Tag::Degrees),
            ("--1", Tag::None),
            ("3--2", Tag::None),
            ("3-+2", Tag::None),
            ("1_000.0", Tag::None),
            ("1e1_0", Tag::None),
            ("1__0", Tag::None),
            ("1_", Tag::None),
            ("1._0", Tag::None),
            ("1e_10", Tag::None),
            ("1 2", Tag::None),
            ("1pi", Tag::None),
            ("10:60", Tag::None),
            ("deg()", Tag::None),
            ("(1+2", Tag::None),
        ];
        for (t, tag) in readme {
            for ctx in [Ctx::Root, Ctx::Seq, Ctx::Map] {
                for style in 0..3 {
                    check_expr(&run, &ExprCase { text: t, tag: *tag, ctx, style, unlimited: false, family: "documented-examples", hash_nt: true }, Some(&calib), &mut l);
                }
            }
        }
        l.flush(&run);
    }

    // ---- 1. exhaustive token strings
    let len_a = tier.pick(6, 7);
    let n_a = space_size(TOKENS_A.len(), len_a);
    let n_a_hashed = space_size(TOKENS_A.len(), 6); // the 7-token layer is counted, not hashed (memory)
    par_chunks(&run, n_a, 512, |i, l| {
        let text = nth_string(TOKENS_A, i, len_a);
        for tag in [Tag::None, Tag::Degrees, Tag::Radians] {
            check_expr(&run, &ExprCase { text: &text, tag, ctx: Ctx::Root, style: 0, unlimited: false, family: "exhaustive-tokens-A", hash_nt: i < n_a_hashed }, None, l);
        }
        if i == n_a / 2 + 7 {
            run.sample(|| json!({"family": "exhaustive-tokens-A", "text": text}));
        }
    });
    mark(&run, "exhaustive tokens A");
    let len_b = tier.pick(7, 8);
    let n_b = space_size(TOKENS_B.len(), len_b);
    let n_b_hashed = space_size(TOKENS_B.len(), 7);
    par_chunks(&run, n_b, 512, |i, l| {
        let text = nth_string(TOKENS_B, i, len_b);
        let tag = if text.contains(':') && i % 2 == 1 { Tag::Radians } else { Tag::None };
        check_expr(&run, &ExprCase { text: &text, tag, ctx: Ctx::Root, style: 0, unlimited: false, family: "exhaustive-tokens-B", hash_nt: i < n_b_hashed }, None, l);
    });
    mark(&run, "exhaustive tokens B");
    // alphabet C: unit calls, groups, sexagesimal, constants, non-finite values under all five tags
    let len_c = tier.pick(6, 7);
    let n_c = space_size(TOKENS_C.len(), len_c);
    let n_c6 = space_size(TOKENS_C.len(), 6);
    par_chunks(&run, n_c, 512, |i, l| {
        let text = nth_string(TOKENS_C, i, len_c);
        for tag in [Tag::None, Tag::Degrees, Tag::Radians, Tag::Float, Tag::Other] {
            check_expr(&run, &ExprCase { text: &text, tag, ctx: Ctx::Root, style: 0, unlimited: false, family: "exhaustive-tokens-C", hash_nt: i < n_c6 }, None, l);
        }
    });
    // alphabet D: constants, non-finite values, zero, division: NaN / infinity / signed-zero propagation
    let len_d = tier.pick(6, 7);
    let n_d6 = space_size(TOKENS_D.len(), 6);
    let n_d = space_size(TOKENS_D.len(), len_d);
    par_chunks(&run, n_d, 512, |i, l| {
        let text = nth_string(TOKENS_D, i, len_d);
        for tag in [Tag::None, Tag::Degrees] {
            check_expr(&run, &ExprCase { text: &text, tag, ctx: Ctx::Root, style: 0, unlimited: false, family: "exhaustive-tokens-D", hash_nt: i < n_d6 }, None, l);
        }
    });
    mark(&run, "exhaustive tokens C");
    // number lexing: sign x mantissa form x exponent form x every placement of one or two separators x tags x contexts
    {
        let mut bases: Vec<String> = Vec::new();
        for sg in NUM_SIGNS {
            for m in NUM_MANTISSAS {
                for e in NUM_EXPONENTS {
                    bases.push(format!("{sg}{m}{e}"));
                }
            }
        }
        par_chunks(&run, bases.len(), 1, |i, l| check_numlex(&run, &bases[i], l));
        run.count("number_lexing/base_literals", bases.len() as u64);
    }
    mark(&run, "number lexing family");

    // ---- 2. random grammar cases (AST + renderer cross-checked against the reference parser) and mutants
    let n_rand = tier.pick(3_000_000, 15_000_000);
    par_chunks(&run, n_rand, 256, |i, l| {
        let mut rng = Rng::stream(seed, i as u64);
        let knobs = match rng.below(4) {
            0 => exprgen::Knobs { func: 0, sexa: 0, special: 0, nl: false },
            1 => exprgen::Knobs { func: 3, sexa: 0, special: 1, nl: false },
            2 => exprgen::Knobs { func: 2, sexa: 3, special: 0, nl: rng.chance(1, 4) },
            _ => exprgen::Knobs { func: 2, sexa: 1, special: 1, nl: rng.chance(1, 8) },
        };
        let depth = if rng.chance(1, 5) { rng.range(5, 8) } else { rng.range(1, 5) };
        let g = exprgen::gen_expr(&mut rng, depth, &knobs, false);
        let tag = *rng.pick(&[Tag::None, Tag::None, Tag::None, Tag::None, Tag::Degrees, Tag::Degrees, Tag::Radians, Tag::Radians, Tag::Float, Tag::Other]);
        let ctx = *rng.pick(&[Ctx::Root, Ctx::Root, Ctx::Seq, Ctx::Map]);
        let style = *rng.pick(&[0u8, 0, 0, 1, 2]);
        let unlimited = rng.chance(1, 4);
        // model self-check: my parser must read my renderer's text back as the same tree
        match refeval::parse(&g.txt) {
            refeval::Parsed::Ast(a) if a.strip_parens().shape() == g.ast.strip_parens().shape() => {}
            refeval::Parsed::Ast(_) => {
                run.inconclusive("model self-check: parse(render(ast)) != ast");
                return;
            }
            // sexagesimal fields out of range etc. are generated on purpose
            _ => l.count("generated_reject_or_unspecified"),
        }
        check_expr(&run, &ExprCase { text: &g.txt, tag, ctx, style, unlimited, family: "random-grammar", hash_nt: true }, Some(&calib), l);
        if i == 3 || i == 1003 {
            run.sample(|| json!({"family": "random-grammar", "text": g.txt, "tag": tag.source(), "ctx": ctx.name(), "reference": format!("{:?}", reference(&g.txt, tag).0)}));
        }
        // one or two mutants of it
        for _ in 0..rng.range(1, 2) {
            let m = exprgen::mutate(&mut rng, &g.txt);
            check_expr(&run, &ExprCase { text: &m, tag, ctx, style, unlimited, family: "mutant", hash_nt: true }, Some(&calib), l);
            if i == 5 {
                run.sample(|| json!({"family": "mutant", "of": g.txt, "text": m, "tag": tag.source(), "reference": format!("{:?}", reference(&m, tag).0)}));
            }
        }
    });
    mark(&run, "random grammar + mutants");

    // ---- 3. targeted must-fail / boundary families
    {
        // depth sweep: every depth 1..=300 plus far beyond, four shapes
        let mut depths: Vec<usize> = (1..=300).collect();
        depths.extend([400, 512, 1000, 2000]);
        par_chunks(&run, depths.len(), 4, |i, l| {
            let d = depths[i];
            let shapes = [
                format!("{}7{}", "(".repeat(d), ")".repeat(d)),
                format!("{}1{}", "2*(".repeat(d), ")".repeat(d)),
                format!("{}1{}", "(1+".repeat(d), ")".repeat(d)),
                format!("rad({}3{})", "(".repeat(d - 1), ")".repeat(d - 1)),
                format!("{}1{}", "deg(".repeat(d), ")".repeat(d)),
                format!("{}1{}", "-(".repeat(d), ")".repeat(d)),
            ];
            for s in &shapes {
                for tag in [Tag::None, Tag::Degrees] {
                    check_expr(&run, &ExprCase { text: s, tag, ctx: Ctx::Root, style: 2, unlimited: true, family: "depth-sweep", hash_nt: true }, Some(&calib), l);
                }
            }
        });
        // underscore placements: every insertion of 1..2 underscores into a set of base numbers
        let bases = ["12", "123", "1.5", "12.34", "1e5", "1e10", "1.5e10", "12:30", "1:2:3.5", "12.5e-10", ".5", "5."];
        let mut us: Vec<String> = Vec::new();
        for b in bases {
            let cs: Vec<char> = b.chars().collect();
            for p in 0..=cs.len() {
                let mut s: String = cs[..p].iter().collect();
                s.push('_');
                s.extend(cs[p..].iter());
                us.push(s.clone());
                let cs2: Vec<char> = s.chars().collect();
                for q in 0..=cs2.len() {
                    let mut s2: String = cs2[..q].iter().collect();
                    s2.push('_');
                    s2.extend(cs2[q..].iter());
                    us.push(s2);
                }
            }
        }
        par_chunks(&run, us.len(), 64, |i, l| {
            for tag in [Tag::None, Tag::Radians] {
                check_expr(&run, &ExprCase { text: &us[i], tag, ctx: Ctx::Root, style: 0, unlimited: false, family: "underscore-placement", hash_nt: true }, None, l);
                let wrapped = format!("2*({})", us[i]);
                check_expr(&run, &ExprCase { text: &wrapped, tag, ctx: Ctx::Root, style: 0, unlimited: false, family: "underscore-placement", hash_nt: true }, None, l);
            }
        });
        // sexagesimal field sweep: all minutes/seconds 0..=99
        par_chunks(&run, 100 * 100, 100, |i, l| {
            let (m, s) = (i / 100, i % 100);
            let texts = [format!("7:{m:02}:{s:02}"), format!("-0:{m}:{s}.5"), format!("deg(1:{m:02}:{s:02}.25)"), format!("12:{m:02}")];
            for (j, t) in texts.iter().enumerate() {
                let tag = [Tag::None, Tag::Radians, Tag::Degrees][(i + j) % 3];
                check_expr(&run, &ExprCase { text: t, tag, ctx: Ctx::Root, style: 0, unlimited: false, family: "sexagesimal-fields", hash_nt: true }, None, l);
            }
        });
        // unit / tag mixing grid
        let units = ["deg(90)", "rad(1.5)", "30:15:10", "deg(10:30)", "rad(pi/2)", "deg(45+45)"];
        let bares = ["90", "pi/2", "0.001", "(1+2)", "tau", "-3"];
        let mut mix: Vec<String> = Vec::new();
        for u in units {
            for b in bares {
                for op in ["+", "-", "*", "/"] {
                    mix.push(format!("{u} {op} {b}"));
                    mix.push(format!("{b}{op}{u}"));
                    mix.push(format!("({u}{op}{b})*2"));
                    mix.push(format!("{u} {op} {}", units[(b.len() + op.len()) % units.len()]));
                    mix.push(format!("{u}{op}{b}{op}{u}"));
                }
            }
            mix.push(u.to_string());
            mix.push(format!("-{u}"));
            mix.push(format!("({u})"));
        }
        par_chunks(&run, mix.len(), 16, |i, l| {
            for tag in [Tag::None, Tag::Degrees, Tag::Radians, Tag::Float, Tag::Other] {
                for ctx in [Ctx::Root, Ctx::Map] {
                    check_expr(&run, &ExprCase { text: &mix[i], tag, ctx, style: 0, unlimited: false, family: "unit-tag-mixing", hash_nt: true }, None, l);
                }
            }
        });
    }

    mark(&run, "targeted families");
    // ---- 3b. commutativity of + and * (holds for every class, also the unspecified ones)
    {
        let tags = [Tag::None, Tag::Degrees, Tag::Radians, Tag::Float];
        let nf = COMMUTE_FIXED.len();
        par_chunks(&run, nf * nf, 8, |i, l| {
            let (a, b) = (COMMUTE_FIXED[i / nf], COMMUTE_FIXED[i % nf]);
            if i / nf >= i % nf {
                return; // unordered pairs, a != b
            }
            for w in 0..WRAPPERS.len() {
                for op in ['+', '*'] {
                    for tag in tags {
                        check_commute(&run, a, b, op, w, tag, Ctx::Root, l);
                    }
                }
            }
        });
        let n_comm = tier.pick(1_000_000, 8_000_000);
        par_chunks(&run, n_comm, 256, |i, l| {
            let mut rng = Rng::stream(seed ^ 0x66, i as u64);
            let op = if rng.bool() { '+' } else { '*' };
            let mp = if op == '+' { 1 } else { 2 };
            let a = exprgen::gen_operand(&mut rng, mp);
            let b = exprgen::gen_operand(&mut rng, mp);
            let w = rng.below(WRAPPERS.len());
            let tag = *rng.pick(&[Tag::None, Tag::None, Tag::Degrees, Tag::Radians, Tag::Float, Tag::Other]);
            let ctx = *rng.pick(&[Ctx::Root, Ctx::Root, Ctx::Seq, Ctx::Map]);
            check_commute(&run, &a, &b, op, w, tag, ctx, l);
        });
    }
    mark(&run, "commutativity");
    // ---- 3c. exact identities, grouping, unit call vs tag (relations on the real code; cover the unspecified classes too)
    {
        let tags5 = [Tag::None, Tag::Degrees, Tag::Radians, Tag::Float, Tag::Other];
        let nf = COMMUTE_FIXED.len();
        par_chunks(&run, nf, 1, |i, l| {
            for tag in tags5 {
                for ctx in [Ctx::Root, Ctx::Seq, Ctx::Map] {
                    check_identities(&run, COMMUTE_FIXED[i], tag, ctx, l);
                }
            }
        });
        par_chunks(&run, nf * nf, 4, |i, l| {
            let (a, b) = (COMMUTE_FIXED[i / nf], COMMUTE_FIXED[i % nf]);
            for op in ['+', '-', '*', '/'] {
                for tag in tags5 {
                    check_grouping(&run, a, b, op, tag, Ctx::Root, l);
                }
            }
        });
        let plains = ["2", "pi", "(1+2)", "-3", ".inf", "1e3", "0.1", "180", "90 + 45", "tau/4", "1_000", "2*pi - 1", "--1", "1/3", "-0.0", "inf", "nan", "1e400", "5."];
        par_chunks(&run, plains.len(), 1, |i, l| {
            for ctx in [Ctx::Root, Ctx::Seq, Ctx::Map] {
                check_unit_vs_tag(&run, plains[i], ctx, l);
            }
        });
        let n_rel = tier.pick(600_000, 8_000_000);
        par_chunks(&run, n_rel, 128, |i, l| {
            let mut rng = Rng::stream(seed ^ 0x77, i as u64);
            let tag = *rng.pick(&tags5);
            let ctx = *rng.pick(&[Ctx::Root, Ctx::Root, Ctx::Seq, Ctx::Map]);
            match rng.below(4) {
                0 | 1 => {
                    let x = exprgen::gen_operand(&mut rng, 0);
                    check_identities(&run, &x, tag, ctx, l);
                    if i == 9 {
                        run.sample(|| json!({"family": "identities", "x": x, "tag": tag.source()}));
                    }
                }
                2 => {
                    let op = *rng.pick(&['+', '-', '*', '/']);
                    let mp = if op == '+' || op == '-' { 1 } else { 2 };
                    let a = exprgen::gen_operand(&mut rng, mp);
                    let b = exprgen::gen_operand(&mut rng, mp);
                    check_grouping(&run, &a, &b, op, tag, ctx, l);
                }
                _ => {
                    let k = exprgen::Knobs { func: 0, sexa: 0, special: 1, nl: false };
                    let depth = rng.range(0, 4);
                    let g = exprgen::gen_expr(&mut rng, depth, &k, false);
                    check_unit_vs_tag(&run, &g.txt, ctx, l);
                }
            }
        });
    }
    mark(&run, "identities / grouping / unit-vs-tag relations");
    // ---- 4. ordinary literals: option on vs off (f32 / f64 / untyped)
    let mut literal_docs: Vec<String>; // also the corpus for the cross-build dump
    {
        let mut toks: Vec<(String, u8, bool)> = Vec::new();
        for t in corpus::FIXED {
            toks.push((t.to_string(), 0, false));
            toks.push((t.to_string(), 2, false));
            toks.push((t.to_string(), 1, false));
        }
        for t in ["1.5", "-0.0", ".inf", "-.INF", ".NaN", "1e3", "16777217", "3.4028235677973366e38", "12", ".5", "1."] {
            for (a, b) in corpus::PADS {
                toks.push((format!("{a}{t}{b}"), 2, false));
            }
        }
        // the C06 scalar corpus (every family: a non-float token must stay a non-float) and its long-float extension
        {
            let c06 = vcore::scalarcorpus::tokens();
            run.count("plain/c06_corpus_tokens", c06.len() as u64);
            for t in c06 {
                toks.push((t.text.clone(), 0, false));
                toks.push((t.text, 2, false));
            }
            for t in vcore::scalarcorpus::int_separator_tokens() {
                toks.push((t.text, 0, false));
            }
            let mut rng = Rng::stream(seed ^ 0x88, 0);
            let (nm, np) = tier.pick((200, 200), (3000, 3000));
            for t in vcore::scalarcorpus::long_float_tokens(&mut rng, nm, np) {
                toks.push((t.text, 0, false));
            }
        }
        let n_lit = tier.pick(500_000, 3_000_000);
        let n_wit = tier.pick(60_000, 800_000);
        let toks_fixed = toks.len();
        let collected = std::sync::Mutex::new(Vec::<String>::new());
        par_chunks(&run, toks_fixed + n_lit + n_wit, 128, |i, l| {
            let keep = |d: Option<String>| {
                if let Some(d) = d {
                    collected.lock().unwrap().push(d);
                }
            };
            if i < toks_fixed {
                let (t, st, w) = &toks[i];
                check_plain(&run, t, *st, *w, l);
                keep(build(t, Tag::None, Ctx::Root, *st));
            } else if i < toks_fixed + n_lit {
                let mut rng = Rng::stream(seed ^ 0x11, i as u64);
                let t = corpus::random_literal(&mut rng);
                check_plain(&run, &t, 0, false, l);
                if i % 8 == 0 {
                    keep(build(&t, Tag::None, Ctx::Root, 0));
                }
            } else {
                let mut rng = Rng::stream(seed ^ 0x22, i as u64);
                let x = corpus::random_positive_f32(&mut rng);
                for (j, w) in corpus::witnesses_for(x, &mut rng).iter().enumerate() {
                    l.count("witness/strings");
                    if let (Ok(a), Ok(b)) = (w.parse::<f32>(), w.parse::<f64>())
                        && a.to_bits() != (b as f32).to_bits()
                    {
                        l.count("witness/effective (direct f32 reading != f64 reading rounded to f32)");
                    }
                    check_plain(&run, w, 0, true, l);
                    if (i + j) % 16 == 0 {
                        keep(build(w, Tag::None, Ctx::Root, 0));
                    }
                    if i == toks_fixed + n_lit + 1 && j == 1 {
                        run.sample(|| json!({"family": "double-rounding-witness", "f32_below": format!("{x:e}"), "text": w}));
                    }
                }
            }
        });
        literal_docs = collected.into_inner().unwrap();
        literal_docs.sort();
        literal_docs.dedup();
    }

    mark(&run, "plain literals on/off");
    // ---- 5. totality: token soup as scalar and as whole document, with CPU bound
    let n_soup = tier.pick(1_000_000, 8_000_000);
    par_chunks(&run, n_soup, 256, |i, l| {
        let mut rng = Rng::stream(seed ^ 0x33, i as u64);
        let s = exprgen::soup(&mut rng);
        let tag = *rng.pick(&[Tag::None, Tag::None, Tag::Degrees, Tag::Radians, Tag::Other]);
        check_expr(&run, &ExprCase { text: &s, tag, ctx: *rng.pick(&[Ctx::Root, Ctx::Seq, Ctx::Map]), style: *rng.pick(&[0u8, 1, 2]), unlimited: rng.chance(1, 4), family: "soup", hash_nt: true }, Some(&calib), l);
        if rng.chance(1, 3) {
            l.count("rawdoc_cases");
            check_rawdoc(&run, &s, &calib);
        }
        if rng.chance(1, 4) {
            // arbitrary bytes through the slice entry point (mostly invalid UTF-8, BOMs, NULs)
            let n = rng.range(1, 24);
            let mut b: Vec<u8> = Vec::with_capacity(n + 8);
            match rng.below(6) {
                0 => b.extend_from_slice(&[0xEF, 0xBB, 0xBF]),
                1 => b.extend_from_slice(&[0xFF, 0xFE]),
                2 => b.extend_from_slice(&[0xFE, 0xFF]),
                _ => {}
            }
            for _ in 0..n {
                b.push(match rng.below(4) {
                    0 => rng.below(256) as u8,
                    1 => *rng.pick(b"0123456789.eE_+-*/(): "),
                    2 => *rng.pick(b"pitaudegrnf"),
                    _ => *rng.pick(&[0u8, 0x80, 0xC3, 0xA9, 0xE2, 0x82, 0xAC, 0xF0, 0x9F, 0xFF, b'\n', b'"', b'!']),
                });
            }
            l.count("rawbytes_cases");
            check_rawbytes(&run, &b, &calib);
        }
        if i == 11 {
            run.sample(|| json!({"family": "soup", "text": s, "tag": tag.source()}));
        }
    });
    mark(&run, "soup");

    // ---- 6. long / deep inputs: in-process with CPU bound, and in an 8 MiB-stack child
    {
        let sizes: &[usize] = tier.pick(&[1_000, 100_000, 1_000_000][..], &[10, 257, 1_000, 10_000, 100_000, 999_999, 1_000_000, 1_000_001, 2_000_000][..]);
        let jobs: Vec<(&str, usize)> = BIG_FAMILIES.iter().flat_map(|f| sizes.iter().map(move |n| (*f, *n))).collect();
        par_chunks(&run, jobs.len(), 1, |i, l| {
            let (f, n) = jobs[i];
            check_big_inprocess(&run, f, n, &calib, l);
        });
        let child_sizes: &[usize] = tier.pick(&[100_000, 1_000_000][..], &[300, 10_000, 100_000, 1_000_000, 2_000_000][..]);
        let cjobs: Vec<(&str, usize, Target)> = BIG_FAMILIES
            .iter()
            .flat_map(|f| child_sizes.iter().map(move |n| (*f, *n)))
            .enumerate()
            .map(|(k, (f, n))| (f, n, if k % 3 == 2 { Target::F32 } else { Target::F64 }))
            .collect();
        par_chunks(&run, cjobs.len(), 1, |i, l| {
            let (f, n, t) = cjobs[i];
            check_big_child(&run, f, n, t, &calib, l);
        });
    }

    mark(&run, "long/deep inputs (in-process + child)");
    // ---- 7. cross-build comparison
    {
        // corpus: literal documents + expressions (errors in both builds when the option is off) + structured documents
        let mut docs = literal_docs;
        for t in ["2*pi", "deg(180)", "1 + 2*(3 - 4/5)", "12:30", "1_000", "rad(pi)", "-0:30:30.5", "(1)", "pi", "inf", "1/2"] {
            for tag in [Tag::None, Tag::Degrees, Tag::Radians, Tag::Float] {
                for ctx in [Ctx::Root, Ctx::Seq, Ctx::Map] {
                    if let Some(d) = build(t, tag, ctx, 0) {
                        docs.push(d);
                    }
                }
            }
        }
        for t in ["1.5", "180", ".inf", "1e3", "-0.0", "3.4028235677973366e38"] {
            for tag in [Tag::Degrees, Tag::Radians, Tag::Float, Tag::Other] {
                for ctx in [Ctx::Root, Ctx::Seq, Ctx::Map] {
                    if let Some(d) = build(t, tag, ctx, 0) {
                        docs.push(d);
                    }
                }
            }
        }
        docs.extend(["a: 1.5\nb: [2*pi, !degrees 90, 1:30]\n", "- 1.5\n- deg(90)\n- .nan\n", "[1.5, 2.5e3, .inf]\n", "{x: 0.1, y: !radians 0.2}\n"].map(String::from));
        docs.sort();
        docs.dedup();
        run.count("nr/corpus_documents", docs.len() as u64);
        match nr_build.join().unwrap_or_else(|_| Err("build thread panicked".into())) {
            Err(e) => {
                eprintln!("harness error: {e}");
                std::process::exit(2);
            }
            Ok(exe) => match run_nr(&exe, &docs) {
                Err(e) => {
                    eprintln!("harness error: {e}");
                    std::process::exit(2);
                }
                Ok((off, on)) => compare_nr(&run, &docs, &off, &on),
            },
        }
    }

    mark(&run, "cross-build comparison");
    let scope = format!(
        "(a) every concatenation of 1..={len_a} tokens from {TOKENS_A:?} under tags none/!degrees/!radians, targets f64+f32; \
         (b) every concatenation of 1..={len_b} tokens from {TOKENS_B:?} (number / underscore / exponent / sexagesimal lexing); \
         (b2) every concatenation of 1..={len_c} tokens from {TOKENS_C:?} under tags none/!degrees/!radians/!!float/!foo (unit calls, groups, tags); \
         (b3) every concatenation of 1..={len_d} tokens from {TOKENS_D:?} under tags none/!degrees (constants, non-finite values, zero, division); \
         (b4) number lexing: {{'', +, -}} x {NUM_MANTISSAS:?} x {NUM_EXPONENTS:?} x every insertion of zero, one or two `_` at any position x tags none/!radians/!degrees/!!float x contexts bare / 2*(..) / deg(..) / 1 - .. , each also compared with the same literal without separators; \
         (c) every parenthesis / function nesting depth 1..=300 in six shapes; (d) every insertion of one or two underscores into 12 base numbers; \
         (e) every minutes x seconds pair 0..=99 x 0..=99 in four sexagesimal shapes; (f) the unit x bare-term x operator x tag grid; \
         (g) operand swap of + and * for every unordered pair of 18 fixed operands x 8 wrappers x 4 tags; \
         (h) 16 exact identities / transparent groupings around each of the 18 fixed operands x 5 tags x 3 positions, grouping of every ordered operand pair x + - * / x 5 tags, unit call vs tag for 19 bare expressions. \
         Layers longer than 6 (A, C, D) / 7 (B) tokens are evaluated and counted but not entered in the distinct-case hash set"
    );
    let fin = Finish::new(
        "a case is non-trivial when (1) the reference model gives a verdict (value or documented error) that the library met and the text \
         contains >= 1 operator / parenthesis / function / sexagesimal form, or (2) it is a double-rounding witness (decimal string within \
         one f64 half-ulp of an f32 midpoint) compared on vs off, or (3) a long/deep family member with a definite expectation, or (4) a pair \
         related by an exact relation (operand swap, neutral element, double negation, grouping, separators removed, unit call vs tag) where both \
         sides were accepted and agreed; distinct by hash(document(s), target, option set); counters nontrivial_counted_not_hashed/* give the \
         members of the largest exhaustive layers that met rule (1) but were not hashed",
    )
    .exhaustive(scope)
    .assume("std's f64/f32 FromStr is the correctly rounded reading of a decimal literal (C06 checks that independently)")
    .assume("README: untagged hh:mm[:ss] is a time in seconds; under !degrees/!radians it is an angle in degrees delivered in radians; deg(x) = x*(pi/180) up to the order of the two operations")
    .assume("unspecified (no verdict): nested unit functions, inf/nan/infinity identifiers, sexagesimal inside rad() or under other tags, bare scale factors of unitized values under !degrees, blanks between unary signs, fields wider than 2 digits, rejections at nesting depth 65..=256, > 10^6 digits")
    .tool("cargo build -p c19nr --target-dir target-nr (serde-saphyr without the robotics feature)")
    .min_nontrivial(if tier == Tier::Quick { 1_000_000 } else { 10_000_000 });
    flush_violation_counts(&run);
    run.finish(fin);
}
