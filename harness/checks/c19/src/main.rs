use serde_saphyr::Options;
fn opts(on: bool) -> Options {
    let mut o = Options::default();
    #[allow(deprecated)]
    {
        o.angle_conversions = on;
    }
    o
}
fn main() {
    for s in [
        "1.00000005960464477539062500000000000001",
        "3.4028235677973366163753939545814256e38",
        "3.4028235677973366e38",
        "!degrees 180",
        "!!float 2*pi",
        "!!str 2*pi",
        "!foo 2*pi",
        "!!timestamp 1:30",
        "\" 1.5 \"",
        "-.nan",
        "infinity",
        "deg(deg(180))",
        "!degrees deg(90)*2",
        "1:30",
        "!radians 1:30",
        "rad(1:30)",
        "|\n 1 +\n 2\n",
        ">\n 1 +\n 2\n",
        "'1 + 2'",
        "1 + 2 # c",
        ".aa\u{e9}",
        "1\u{e9}\u{e9}",
    ] {
        for on in [false, true] {
            let a = vcore::obs::catch(|| serde_saphyr::from_str_with_options::<f32>(s, opts(on)));
            let b = vcore::obs::catch(|| serde_saphyr::from_str_with_options::<f64>(s, opts(on)));
            let sa = match a {
                Ok(Ok(v)) => format!("{:08x} {v:e}", v.to_bits()),
                Ok(Err(e)) => format!("ERR {}", vcore::errs::kind(&e)),
                Err(p) => format!("PANIC {p}"),
            };
            let sb = match b {
                Ok(Ok(v)) => format!("{:016x} {v:e}", v.to_bits()),
                Ok(Err(e)) => format!("ERR {} {}", vcore::errs::kind(&e), e.to_string().replace('\n', "\\n")),
                Err(p) => format!("PANIC {p}"),
            };
            println!("{s:?} on={on}: f32={sa} | f64={sb}");
        }
    }
}
