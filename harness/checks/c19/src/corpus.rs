//! Float-literal corpus (ordinary YAML float / integer tokens and near misses) and
//! generated double-rounding witnesses.

use vcore::rng::Rng;

/// Hand-picked tokens: every spelling family of YAML 1.2 floats, integers that a
/// float target accepts, boundary magnitudes for f32 and f64, and near misses.
pub const FIXED: &[&str] = &[
    "0", "-0", "+0", "0.0", "-0.0", "+0.0", "00", "007", "00.5", "1", "-1", "+1", "1.", "-1.", ".5", "-.5", "+.5", "1.5", "-1.5",
    "+1.5", "1e3", "1E3", "1e+3", "1E+3", "1e-3", "1.e3", ".5e1", "5.e-1", "1.5e0", "1e0", "1e00", "1e007", "12345", "123456789",
    "0.1", "0.2", "0.3", "0.7", "0.30000000000000004", "2.5", "3.141592653589793", "2.718281828459045", "100", "1000000",
    "1e400", "-1e400", "1e-400", "-1e-400", "1e308", "1e309", "1e-323", "1e-324", "4.9e-324", "5e-324", "2.4703282292062327e-324",
    "2.4703282292062328e-324", "1.7976931348623157e308", "1.7976931348623158e308", "1.7976931348623159e308",
    "2.2250738585072014e-308", "2.2250738585072011e-308", "2.2250738585072012e-308", "3.4028234663852886e38",
    "3.4028235677973366e38", "3.4028235677973367e38", "3.4028235e38", "3.4028236e38", "3.5e38", "1.1754943508222875e-38",
    "1.1754942e-38", "1.401298464324817e-45", "7.006492321624085e-46", "7.006492321624086e-46", "7e-46", "1e-45", "1e-46",
    "16777216", "16777217", "16777218", "16777219", "33554433", "9007199254740992", "9007199254740993", "9007199254740994",
    "123456789012345678", "18446744073709551615", "18446744073709551616", "340282366920938463463374607431768211455",
    "340282366920938463463374607431768211456", "-9223372036854775808", "-9223372036854775809", "1.0000001", "1.00000001",
    "1.00000005960464477539062", "1.00000005960464477539063", "1.000000059604644775390625", "0.1e1", "10e-1", "0.000001", "1e-6",
    "123.456", "-123.456", "6.02214076e23", "6.62607015e-34", "299792458", "-273.15", "1.0", "2.0", "10.0", "1.50", "1.500000",
    // special values
    ".inf", "+.inf", "-.inf", ".Inf", "+.Inf", "-.Inf", ".INF", "+.INF", "-.INF", ".nan", ".NaN", ".NAN", "+.nan", "-.nan",
    ".iNf", ".nAn", ".infinity", ".inff", ".na",
    // identifiers the standard library's float parser also reads (class: unspecified)
    "inf", "+inf", "-inf", "Inf", "INF", "nan", "NaN", "-nan", "infinity", "Infinity", "-infinity", "+Infinity",
    // near misses / not floats
    "", "~", "null", "true", "false", "yes", "x", "e", "e1", "E5", "1e", "1e+", "1e-", ".", "+", "-", "+.", "-.", "..", "1..", "1.5.5",
    "1e5e5", "1e1.5", "--1", "++1", "+-1", "-+1", "1-", "1+", "0x10", "0X1F", "0o17", "0b101", "0x1p3", "1f", "1.0f", "1d", "1L", "1,5",
    "1 5", "1_0", "1_000.5", "1__0", "_1", "1_", "1e1_0", "12:30", "1:30:15", "190:20:30.15", "pi", "tau", "2*pi", "deg(180)",
    "rad(1)", "1 + 1", "(1)", "1/2", "0.5/2", "-(1)", "+(1)", "1e5:30", "\u{ff11}\u{ff12}", "1\u{e9}", "1\u{660}",
];

/// Paddings (only meaningful in quoted scalars): blanks the two float readers agree are blanks.
pub const PADS: &[(&str, &str)] = &[(" ", ""), ("", " "), (" ", " "), ("\t", ""), ("", "\t"), ("  ", "\t "), ("\n", ""), ("", "\n"), ("\r\n", "\n")];

pub fn next_f32(x: f32) -> f32 {
    // x finite, >= 0
    f32::from_bits(x.to_bits() + 1)
}

/// Exact decimal expansion of a finite f64 (Rust's float formatting is exact for
/// any requested precision), trailing zeros trimmed.
pub fn exact_decimal(m: f64) -> String {
    let s = format!("{:.1100}", m);
    let s = s.trim_end_matches('0');
    let s = s.trim_end_matches('.');
    s.to_string()
}

/// Strings around the midpoint between the positive f32 `x` and its successor:
/// the exact midpoint, just above, just below (closer than any f64 half-ulp), and
/// the shortest f64 spelling of the midpoint. Also returns the midpoint.
pub fn witnesses_for(x: f32, rng: &mut Rng) -> Vec<String> {
    let lo = x as f64;
    let hi = next_f32(x);
    let m = if hi.is_infinite() {
        // midpoint between f32::MAX and 2^128
        (lo + 2f64.powi(128)) / 2.0
    } else {
        (lo + hi as f64) / 2.0
    };
    let exact = exact_decimal(m);
    let mut out = Vec::new();
    // just above: append a tail of zeros and a 1 (value exceeds m by far less than an f64 half-ulp)
    let (ip, fp) = match exact.split_once('.') {
        Some((a, b)) => (a.to_string(), b.to_string()),
        None => (exact.clone(), String::new()),
    };
    let zeros = "0".repeat(rng.range(0, 30));
    let above = format!("{ip}.{fp}{zeros}1");
    // just below: decrement the last non-zero digit of the expansion and append 9s
    let digits: String = format!("{ip}{fp}");
    let mut ds: Vec<u8> = digits.bytes().collect();
    let mut k = ds.len();
    while k > 0 && ds[k - 1] == b'0' {
        k -= 1;
    }
    let below = if k == 0 {
        None
    } else {
        ds[k - 1] -= 1;
        for d in ds.iter_mut().skip(k) {
            *d = b'9';
        }
        let s = String::from_utf8(ds).unwrap();
        let (a, b) = s.split_at(ip.len());
        let nines = "9".repeat(rng.range(1, 30));
        Some(format!("{a}.{b}{nines}"))
    };
    out.push(exact.clone());
    out.push(above);
    if let Some(b) = below {
        out.push(b);
    }
    // 17-significant-digit spellings: the shortest f64 spelling of the midpoint and its neighbours
    out.push(format!("{m:e}"));
    out.push(format!("{m}"));
    let up = f64::from_bits(m.to_bits() + 1);
    let dn = f64::from_bits(m.to_bits() - 1);
    out.push(format!("{up:e}"));
    out.push(format!("{dn:e}"));
    // exponent notation of the exact forms, and negative versions
    if rng.chance(1, 3) {
        let w = out[rng.below(3.min(out.len()))].clone();
        out.push(format!("-{w}"));
    }
    out
}

pub fn random_positive_f32(rng: &mut Rng) -> f32 {
    loop {
        let bits = match rng.below(8) {
            0 => rng.below(0x0080_0000) as u32,                       // subnormals
            1 => 0x7f7f_ffff - rng.below(64) as u32,                  // next to MAX
            2 => 0x3f80_0000 + rng.below(1 << 12) as u32,             // next to 1.0
            3 => (rng.below(254) as u32 + 1) << 23,                   // powers of two
            4 => ((rng.below(254) as u32 + 1) << 23) | 0x007f_ffff,   // below powers of two
            _ => (rng.next_u64() as u32) & 0x7fff_ffff,
        };
        let x = f32::from_bits(bits);
        if x.is_finite() {
            return x;
        }
    }
}

/// A random decimal literal in one of the ordinary spellings.
pub fn random_literal(rng: &mut Rng) -> String {
    let mut s = String::new();
    match rng.below(6) {
        0 => s.push('-'),
        1 => s.push('+'),
        _ => {}
    }
    match rng.below(8) {
        0 => {
            // shortest spelling of a random f64
            let v = f64::from_bits(rng.next_u64() & 0x7fff_ffff_ffff_ffff);
            if v.is_finite() {
                if rng.bool() { s.push_str(&format!("{v:e}")) } else { s.push_str(&format!("{v}")) }
                if s.len() > 400 {
                    s.truncate(400);
                }
                return s;
            }
            s.push('1');
        }
        1 => {
            let v = f32::from_bits((rng.next_u64() as u32) & 0x7fff_ffff);
            if v.is_finite() {
                if rng.bool() { s.push_str(&format!("{v:e}")) } else { s.push_str(&format!("{v}")) }
                return s;
            }
            s.push('1');
        }
        2 => {
            // integer
            let n = rng.range(1, 40);
            for i in 0..n {
                let d = if i == 0 { rng.range(1, 9) } else { rng.below(10) };
                s.push((b'0' + d as u8) as char);
            }
        }
        _ => {
            let ni = rng.below(20);
            for _ in 0..ni {
                s.push((b'0' + rng.below(10) as u8) as char);
            }
            let nf = if ni == 0 { rng.range(1, 25) } else { rng.below(25) };
            if nf > 0 || rng.chance(1, 5) {
                s.push('.');
                for _ in 0..nf {
                    s.push((b'0' + rng.below(10) as u8) as char);
                }
            }
            if rng.chance(1, 2) {
                s.push(if rng.bool() { 'e' } else { 'E' });
                match rng.below(3) {
                    0 => s.push('-'),
                    1 => s.push('+'),
                    _ => {}
                }
                let e = match rng.below(4) {
                    0 => rng.below(400),
                    1 => rng.below(50),
                    _ => rng.below(10),
                };
                s.push_str(&e.to_string());
            }
        }
    }
    s
}

/// Text classes of the corpus for which "the value it has without the extension"
/// is not a YAML float literal at all (no on/off verdict).
pub fn unspecified_literal(text: &str) -> Option<&'static str> {
    let t = text.trim_matches(|c: char| c.is_whitespace());
    let core = t.trim_start_matches(['+', '-']).to_ascii_lowercase();
    if core == "inf" || core == "nan" || core == "infinity" {
        return Some("inf-nan-identifier");
    }
    if text.chars().any(|c| c.is_whitespace() && !matches!(c, ' ' | '\t' | '\n' | '\r')) {
        return Some("exotic-whitespace");
    }
    if text.bytes().filter(|b| b.is_ascii_digit()).count() > 1_000_000 {
        return Some("digit-limit");
    }
    None
}
