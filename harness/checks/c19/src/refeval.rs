//! Reference model for the robotics expression language (independent of
//! /repo/src/robotics.rs: a tokenizer + token-level precedence parser + AST
//! evaluator over *sets* of acceptable IEEE-754 results).
//!
//! Three-valued: `Value(cands)` (the library must accept and return one of the
//! candidates, bit for bit), `Reject(class)` (the documentation says such input is
//! an error), `Unspec(class)` (statement + documentation do not determine a
//! single answer: no verdict).
//!
//! Where the documentation does not pin down the rounding of a derived quantity
//! (deg→rad as x·(π/180) vs x·π/180, composition of sexagesimal fields) every
//! plausible evaluation order is a candidate. `+ - * /` and unary signs are exact
//! IEEE operations in source order (left-associative, `* /` before `+ -`).

use std::f64::consts::PI;

#[derive(Clone, Copy, Debug, PartialEq, Eq)]
pub enum Tag {
    None,
    Degrees,
    Radians,
    /// `!!float`
    Float,
    /// some unrelated local tag (`!foo`)
    Other,
}

impl Tag {
    pub fn source(self) -> &'static str {
        match self {
            Tag::None => "",
            Tag::Degrees => "!degrees",
            Tag::Radians => "!radians",
            Tag::Float => "!!float",
            Tag::Other => "!foo",
        }
    }
    pub fn from_source(s: &str) -> Tag {
        match s {
            "!degrees" => Tag::Degrees,
            "!radians" => Tag::Radians,
            "!!float" => Tag::Float,
            "!foo" => Tag::Other,
            _ => Tag::None,
        }
    }
}

#[derive(Clone, Debug, PartialEq)]
pub enum Verdict {
    Value(Vec<f64>),
    Reject(&'static str),
    Unspec(&'static str),
}

pub const MAX_DEPTH: usize = 256;
/// Below this nesting depth acceptance is required; between this and MAX_DEPTH a
/// rejection is counted as unspecified (the documentation names no figure).
pub const SURE_DEPTH: usize = 64;
const CAND_CAP: usize = 64;

// ------------------------------------------------------------------ AST

#[derive(Clone, Debug)]
pub enum Ast {
    /// cleaned literal text (underscores removed)
    Num(String),
    DotInf,
    DotNan,
    Pi,
    Tau,
    /// degrees/hours, minutes, seconds (None = two-field form), fraction digits
    Sexa { d: String, m: u32, s: Option<u32>, frac: String },
    Neg(Box<Ast>),
    Plus(Box<Ast>),
    Bin(char, Box<Ast>, Box<Ast>),
    Paren(Box<Ast>),
    /// true = deg, false = rad
    Func(bool, Box<Ast>),
}

impl Ast {
    pub fn strip_parens(&self) -> Ast {
        match self {
            Ast::Paren(a) => a.strip_parens(),
            Ast::Neg(a) => Ast::Neg(Box::new(a.strip_parens())),
            Ast::Plus(a) => Ast::Plus(Box::new(a.strip_parens())),
            Ast::Bin(o, a, b) => Ast::Bin(*o, Box::new(a.strip_parens()), Box::new(b.strip_parens())),
            Ast::Func(d, a) => Ast::Func(*d, Box::new(a.strip_parens())),
            other => other.clone(),
        }
    }
    pub fn shape(&self) -> String {
        match self {
            Ast::Num(t) => format!("n{t}"),
            Ast::DotInf => ".inf".into(),
            Ast::DotNan => ".nan".into(),
            Ast::Pi => "pi".into(),
            Ast::Tau => "tau".into(),
            Ast::Sexa { d, m, s, frac } => format!("x{d}:{m}:{s:?}.{frac}"),
            Ast::Neg(a) => format!("(-{})", a.shape()),
            Ast::Plus(a) => format!("(+{})", a.shape()),
            Ast::Bin(o, a, b) => format!("({}{o}{})", a.shape(), b.shape()),
            Ast::Paren(a) => format!("[{}]", a.shape()),
            Ast::Func(d, a) => format!("{}({})", if *d { "deg" } else { "rad" }, a.shape()),
        }
    }
    /// number of binary operators and unit functions
    pub fn ops(&self) -> usize {
        match self {
            Ast::Neg(a) | Ast::Plus(a) | Ast::Paren(a) => a.ops(),
            Ast::Bin(_, a, b) => 1 + a.ops() + b.ops(),
            Ast::Func(_, a) => 1 + a.ops(),
            _ => 0,
        }
    }
    /// `[sign]* NUM` possibly parenthesised: an ordinary literal with signs
    fn lone_literal(&self) -> Option<(bool, &str)> {
        match self {
            Ast::Num(t) => Some((false, t)),
            Ast::Neg(a) => a.lone_literal().map(|(n, t)| (!n, t)),
            Ast::Plus(a) | Ast::Paren(a) => a.lone_literal(),
            _ => None,
        }
    }
}

// ------------------------------------------------------------------ lexer

#[derive(Clone, Debug)]
enum Tk {
    Num(String),
    DotInf,
    DotNan,
    Sexa { d: String, m: u32, s: Option<u32>, frac: String },
    Ident(String),
    Op(char),
    LParen,
    RParen,
}

#[derive(Clone, Debug)]
struct Token {
    k: Tk,
    ws_before: bool,
}

enum LexErr {
    Reject(&'static str),
    Unspec(&'static str),
}

fn starts_ci(b: &[u8], i: usize, kw: &[u8]) -> bool {
    b.len() >= i + kw.len() && b[i..i + kw.len()].eq_ignore_ascii_case(kw)
}

/// A run of digits and underscores; `Err` on misplaced underscore. Returns the
/// digits with underscores removed and the index after the run.
fn digit_run(b: &[u8], mut i: usize) -> Result<(String, usize), LexErr> {
    let start = i;
    let mut out = String::new();
    while i < b.len() && (b[i].is_ascii_digit() || b[i] == b'_') {
        if b[i] == b'_' {
            let prev_digit = i > start && b[i - 1].is_ascii_digit();
            let next_digit = i + 1 < b.len() && b[i + 1].is_ascii_digit();
            if !prev_digit || !next_digit {
                return Err(LexErr::Reject("bad-underscore"));
            }
        } else {
            out.push(b[i] as char);
        }
        i += 1;
    }
    Ok((out, i))
}

fn lex(s: &str) -> Result<Vec<Token>, LexErr> {
    let b = s.as_bytes();
    let mut i = 0;
    let mut out = Vec::new();
    let mut ws = false;
    let mut unspec: Option<&'static str> = None;
    while i < b.len() {
        let c = b[i];
        match c {
            b' ' | b'\t' | b'\n' | b'\r' => {
                ws = true;
                i += 1;
                continue;
            }
            b'+' | b'-' | b'*' | b'/' => {
                out.push(Token { k: Tk::Op(c as char), ws_before: ws });
                i += 1;
            }
            b'(' => {
                out.push(Token { k: Tk::LParen, ws_before: ws });
                i += 1;
            }
            b')' => {
                out.push(Token { k: Tk::RParen, ws_before: ws });
                i += 1;
            }
            b'0'..=b'9' | b'.' => {
                if starts_ci(b, i, b".inf") {
                    out.push(Token { k: Tk::DotInf, ws_before: ws });
                    i += 4;
                } else if starts_ci(b, i, b".nan") {
                    out.push(Token { k: Tk::DotNan, ws_before: ws });
                    i += 4;
                } else {
                    let (int_part, j) = digit_run(b, i)?;
                    if !int_part.is_empty() && j < b.len() && b[j] == b':' {
                        // sexagesimal  D:M[:S[.F]]
                        let (m_txt, j2) = digit_run(b, j + 1)?;
                        if m_txt.is_empty() {
                            return Err(LexErr::Reject("sexagesimal-missing-digits"));
                        }
                        let mut k = j2;
                        let mut s_txt: Option<String> = None;
                        let mut frac = String::new();
                        if k < b.len() && b[k] == b':' {
                            let (st, j3) = digit_run(b, k + 1)?;
                            if st.is_empty() {
                                return Err(LexErr::Reject("sexagesimal-missing-digits"));
                            }
                            k = j3;
                            s_txt = Some(st);
                            if k < b.len() && b[k] == b'.' {
                                let (ft, j4) = digit_run(b, k + 1)?;
                                if ft.is_empty() {
                                    return Err(LexErr::Reject("sexagesimal-missing-digits"));
                                }
                                frac = ft;
                                k = j4;
                            }
                        }
                        let small = |t: &str| -> Option<u32> {
                            let t2 = t.trim_start_matches('0');
                            if t2.len() > 4 { None } else { Some(t2.parse::<u32>().unwrap_or(0)) }
                        };
                        let m = small(&m_txt);
                        let sv = s_txt.as_deref().map(small);
                        if m.is_none_or(|v| v > 59) || sv.is_some_and(|v| v.is_none_or(|v| v > 59)) {
                            return Err(LexErr::Reject("minutes-seconds-out-of-range"));
                        }
                        if m_txt.len() > 2 || s_txt.as_ref().is_some_and(|t| t.len() > 2) {
                            unspec.get_or_insert("sexagesimal-field-width");
                        }
                        if int_part.len() > 15 || frac.len() > 15 {
                            unspec.get_or_insert("sexagesimal-long-field-rounding");
                        }
                        out.push(Token {
                            k: Tk::Sexa { d: int_part, m: m.unwrap(), s: sv.map(|v| v.unwrap()), frac },
                            ws_before: ws,
                        });
                        i = k;
                    } else {
                        let mut text = int_part;
                        let mut k = j;
                        let mut mant_digits = text.len();
                        if k < b.len() && b[k] == b'.' {
                            let (ft, j2) = digit_run(b, k + 1)?;
                            mant_digits += ft.len();
                            text.push('.');
                            text.push_str(&ft);
                            k = j2;
                        }
                        let mut exp_digits = 0;
                        if k < b.len() && (b[k] == b'e' || b[k] == b'E') {
                            text.push('e');
                            k += 1;
                            if k < b.len() && (b[k] == b'+' || b[k] == b'-') {
                                text.push(b[k] as char);
                                k += 1;
                            }
                            let (et, j3) = digit_run(b, k)?;
                            if et.is_empty() {
                                return Err(LexErr::Reject("malformed-exponent"));
                            }
                            exp_digits = et.len();
                            text.push_str(&et);
                            k = j3;
                        }
                        if mant_digits == 0 {
                            return Err(LexErr::Reject("number-without-digits"));
                        }
                        if mant_digits + exp_digits > 1_000_000 {
                            // documented hardening ("maximal number of digits"), figure not documented
                            unspec.get_or_insert("digit-limit");
                        }
                        out.push(Token { k: Tk::Num(text), ws_before: ws });
                        i = k;
                    }
                }
            }
            c if c.is_ascii_alphabetic() || c == b'_' => {
                let st = i;
                while i < b.len() && (b[i].is_ascii_alphanumeric() || b[i] == b'_') {
                    i += 1;
                }
                let id = s[st..i].to_ascii_lowercase();
                if id == "inf" || id == "nan" || id == "infinity" {
                    unspec.get_or_insert("inf-nan-identifier");
                }
                out.push(Token { k: Tk::Ident(id), ws_before: ws });
            }
            _ => {
                // anything else cannot start or continue a token
                if c >= 0x80 {
                    let ch = s[i..].chars().next().unwrap();
                    if ch.is_whitespace() {
                        return Err(LexErr::Unspec("exotic-whitespace"));
                    }
                    return Err(LexErr::Reject("stray-non-ascii-character"));
                }
                if c == 0x0b || c == 0x0c {
                    return Err(LexErr::Unspec("exotic-whitespace"));
                }
                return Err(LexErr::Reject("stray-character"));
            }
        }
        ws = false;
    }
    if let Some(u) = unspec {
        return Err(LexErr::Unspec(u));
    }
    Ok(out)
}

// ------------------------------------------------------------------ parser

struct P {
    t: Vec<Token>,
    i: usize,
    unspec: Option<&'static str>,
}

type PR = Result<Ast, &'static str>;

impl P {
    fn peek(&self) -> Option<&Tk> {
        self.t.get(self.i).map(|t| &t.k)
    }
    fn expr(&mut self) -> PR {
        let mut l = self.term()?;
        while let Some(Tk::Op(c @ ('+' | '-'))) = self.peek() {
            let c = *c;
            self.i += 1;
            let r = self.term()?;
            l = Ast::Bin(c, Box::new(l), Box::new(r));
        }
        Ok(l)
    }
    fn term(&mut self) -> PR {
        let mut l = self.unary()?;
        while let Some(Tk::Op(c @ ('*' | '/'))) = self.peek() {
            let c = *c;
            self.i += 1;
            let r = self.unary()?;
            l = Ast::Bin(c, Box::new(l), Box::new(r));
        }
        Ok(l)
    }
    fn unary(&mut self) -> PR {
        let mut signs = Vec::new();
        while let Some(Tk::Op(c @ ('+' | '-'))) = self.peek() {
            let c = *c;
            if !signs.is_empty() && self.t[self.i].ws_before {
                // "- -1": whether blanks may separate unary signs is not documented
                self.unspec.get_or_insert("blank-between-unary-signs");
            }
            signs.push(c);
            self.i += 1;
        }
        let a = self.primary()?;
        // a run of signs is one node (a run may be a million characters long):
        // odd number of '-' negates, otherwise identity; both exact in IEEE-754
        if signs.is_empty() {
            return Ok(a);
        }
        let negs = signs.iter().filter(|c| **c == '-').count();
        Ok(if negs % 2 == 1 { Ast::Neg(Box::new(a)) } else { Ast::Plus(Box::new(a)) })
    }
    fn primary(&mut self) -> PR {
        let Some(tok) = self.t.get(self.i).cloned() else {
            return Err("missing-operand");
        };
        self.i += 1;
        match tok.k {
            Tk::Num(t) => Ok(Ast::Num(t)),
            Tk::DotInf => Ok(Ast::DotInf),
            Tk::DotNan => Ok(Ast::DotNan),
            Tk::Sexa { d, m, s, frac } => Ok(Ast::Sexa { d, m, s, frac }),
            Tk::LParen => {
                let e = self.expr()?;
                match self.peek() {
                    Some(Tk::RParen) => {
                        self.i += 1;
                        Ok(Ast::Paren(Box::new(e)))
                    }
                    None => Err("unbalanced-parenthesis"),
                    _ => Err("juxtaposed-operands"),
                }
            }
            Tk::Ident(id) => match id.as_str() {
                "pi" => Ok(Ast::Pi),
                "tau" => Ok(Ast::Tau),
                "deg" | "rad" => {
                    if !matches!(self.peek(), Some(Tk::LParen)) {
                        return Err("function-without-parenthesis");
                    }
                    self.i += 1;
                    let e = self.expr()?;
                    match self.peek() {
                        Some(Tk::RParen) => {
                            self.i += 1;
                            Ok(Ast::Func(id == "deg", Box::new(e)))
                        }
                        None => Err("unbalanced-parenthesis"),
                        _ => Err("juxtaposed-operands"),
                    }
                }
                // inf / nan / infinity were turned into Unspec by the lexer
                _ => Err("unknown-identifier"),
            },
            Tk::Op(_) => Err("missing-operand"),
            Tk::RParen => Err("missing-operand"),
        }
    }
}

/// Maximum parenthesis nesting reached by a left-to-right scan.
pub fn paren_depth(s: &str) -> usize {
    let (mut d, mut m) = (0usize, 0usize);
    for c in s.bytes() {
        if c == b'(' {
            d += 1;
            m = m.max(d);
        } else if c == b')' {
            d = d.saturating_sub(1);
        }
    }
    m
}

pub enum Parsed {
    Ast(Ast),
    Reject(&'static str),
    Unspec(&'static str),
}

pub fn parse(s: &str) -> Parsed {
    if paren_depth(s) > MAX_DEPTH {
        // either malformed or nested deeper than the limit: an error both ways
        return Parsed::Reject("depth>256");
    }
    let toks = match lex(s) {
        Ok(t) => t,
        Err(LexErr::Reject(c)) => return Parsed::Reject(c),
        Err(LexErr::Unspec(c)) => return Parsed::Unspec(c),
    };
    if toks.is_empty() {
        return Parsed::Reject("empty");
    }
    let mut p = P { t: toks, i: 0, unspec: None };
    let r = p.expr();
    if let Some(u) = p.unspec {
        return Parsed::Unspec(u);
    }
    match r {
        Err(c) => Parsed::Reject(c),
        Ok(a) => {
            if p.i < p.t.len() {
                let c = match p.t[p.i].k {
                    Tk::RParen => "unbalanced-parenthesis",
                    _ => "juxtaposed-operands",
                };
                return Parsed::Reject(c);
            }
            Parsed::Ast(a)
        }
    }
}

// ------------------------------------------------------------------ evaluator

#[derive(Clone, Debug)]
struct Cands(Vec<f64>);

fn key(v: f64) -> u64 {
    if v.is_nan() { 0x7ff8_0000_0000_0000 } else { v.to_bits() }
}

impl Cands {
    fn one(v: f64) -> Cands {
        Cands(vec![v])
    }
    fn from(vs: impl IntoIterator<Item = f64>) -> Cands {
        let mut out: Vec<f64> = Vec::new();
        for v in vs {
            if !out.iter().any(|o| key(*o) == key(v)) {
                out.push(v);
            }
        }
        Cands(out)
    }
    fn map(&self, f: impl Fn(f64) -> Vec<f64>) -> Cands {
        Cands::from(self.0.iter().flat_map(|v| f(*v)))
    }
    fn zip(&self, o: &Cands, f: impl Fn(f64, f64) -> f64) -> Cands {
        let mut vs = Vec::new();
        for a in &self.0 {
            for b in &o.0 {
                vs.push(f(*a, *b));
            }
        }
        Cands::from(vs)
    }
}

/// degrees → radians, every rounding the documentation's formulas admit
pub fn deg2rad_all(x: f64) -> Vec<f64> {
    vec![x * (PI / 180.0), x * PI / 180.0, x / 180.0 * PI]
}

struct Ev {
    c: Cands,
    /// contains deg()/rad() (outside any other unit function)
    func_unit: bool,
    /// contains a sexagesimal literal outside unit functions
    sexa_unit: bool,
    /// contains a bare number/constant outside unit functions
    plain: bool,
    /// an additive operator joins a purely bare operand with a unitized one
    addmix: bool,
}

impl Ev {
    fn unit(&self) -> bool {
        self.func_unit || self.sexa_unit
    }
}

#[derive(Clone, Copy, PartialEq)]
enum Ctx {
    Top,
    InDeg,
    InRad,
}

type ER = Result<Ev, Verdict>;

fn plain(v: f64) -> Ev {
    Ev { c: Cands::one(v), func_unit: false, sexa_unit: false, plain: true, addmix: false }
}

fn has_func(a: &Ast) -> bool {
    match a {
        Ast::Func(..) => true,
        Ast::Neg(x) | Ast::Plus(x) | Ast::Paren(x) => has_func(x),
        Ast::Bin(_, x, y) => has_func(x) || has_func(y),
        _ => false,
    }
}

fn pow10(n: usize) -> f64 {
    let mut s = 1.0f64;
    for _ in 0..n {
        s *= 10.0;
    }
    s
}

fn eval(a: &Ast, ctx: Ctx, tag: Tag) -> ER {
    Ok(match a {
        Ast::Num(t) => match t.parse::<f64>() {
            Ok(v) => plain(v),
            Err(_) => return Err(Verdict::Reject("invalid-float-literal")),
        },
        Ast::DotInf => plain(f64::INFINITY),
        Ast::DotNan => plain(f64::NAN),
        Ast::Pi => plain(PI),
        Ast::Tau => plain(2.0 * PI),
        Ast::Sexa { d, m, s, frac } => {
            let dv: f64 = d.parse().map_err(|_| Verdict::Unspec("sexagesimal-long-field-rounding"))?;
            let mv = *m as f64;
            // seconds with fraction: field + fraction, or the decimal read as one number
            let secs: Vec<f64> = match s {
                None => vec![0.0],
                Some(sv) => {
                    let si = *sv as f64;
                    if frac.is_empty() {
                        vec![si]
                    } else {
                        let num: f64 = frac.parse().unwrap_or(0.0);
                        let f1 = num / pow10(frac.len());
                        let f2: f64 = format!("0.{frac}").parse().unwrap_or(0.0);
                        let whole: f64 = format!("{sv}.{frac}").parse().unwrap_or(0.0);
                        vec![si + f1, si + f2, whole]
                    }
                }
            };
            let secs = Cands::from(secs);
            let time = secs.map(|sv| vec![dv * 3600.0 + mv * 60.0 + sv, (dv * 60.0 + mv) * 60.0 + sv]);
            let angle = secs.map(|sv| {
                vec![dv + mv / 60.0 + sv / 3600.0, dv + (mv + sv / 60.0) / 60.0, (dv * 3600.0 + mv * 60.0 + sv) / 3600.0]
            });
            match ctx {
                Ctx::InRad => return Err(Verdict::Unspec("sexagesimal-inside-rad")),
                Ctx::InDeg => Ev { c: angle, func_unit: false, sexa_unit: true, plain: false, addmix: false },
                Ctx::Top => match tag {
                    // README: untagged hh:mm[:ss] is a time in seconds
                    Tag::None => Ev { c: time, func_unit: false, sexa_unit: true, plain: false, addmix: false },
                    // README: under an angle tag it is an angle in degrees, delivered in radians
                    Tag::Degrees | Tag::Radians => {
                        Ev { c: angle.map(deg2rad_all), func_unit: false, sexa_unit: true, plain: false, addmix: false }
                    }
                    _ => return Err(Verdict::Unspec("sexagesimal-under-other-tag")),
                },
            }
        }
        Ast::Neg(x) => {
            let mut e = eval(x, ctx, tag)?;
            e.c = e.c.map(|v| vec![-v]);
            e
        }
        Ast::Plus(x) | Ast::Paren(x) => eval(x, ctx, tag)?,
        Ast::Bin(op, x, y) => {
            let l = eval(x, ctx, tag)?;
            let r = eval(y, ctx, tag)?;
            let c = match op {
                '+' => l.c.zip(&r.c, |a, b| a + b),
                '-' => l.c.zip(&r.c, |a, b| a - b),
                '*' => l.c.zip(&r.c, |a, b| a * b),
                _ => l.c.zip(&r.c, |a, b| a / b),
            };
            if c.0.len() > CAND_CAP {
                return Err(Verdict::Unspec("rounding-ambiguity-too-large"));
            }
            let pure_plain = |e: &Ev| e.plain && !e.unit();
            let additive = *op == '+' || *op == '-';
            let mix = additive && ((pure_plain(&l) && r.unit()) || (pure_plain(&r) && l.unit()));
            Ev {
                c,
                func_unit: l.func_unit || r.func_unit,
                sexa_unit: l.sexa_unit || r.sexa_unit,
                plain: l.plain || r.plain,
                addmix: l.addmix || r.addmix || mix,
            }
        }
        Ast::Func(is_deg, x) => {
            if ctx != Ctx::Top || has_func(x) {
                return Err(Verdict::Unspec("nested-unit-functions"));
            }
            let inner = eval(x, if *is_deg { Ctx::InDeg } else { Ctx::InRad }, tag)?;
            let c = if *is_deg { inner.c.map(deg2rad_all) } else { inner.c };
            Ev { c, func_unit: true, sexa_unit: false, plain: false, addmix: false }
        }
    })
}

/// Acceptable f64 results of expression text `s` under `tag`.
pub fn reference(s: &str, tag: Tag) -> (Verdict, Option<Ast>) {
    let ast = match parse(s) {
        Parsed::Ast(a) => a,
        Parsed::Reject(c) => return (Verdict::Reject(c), None),
        Parsed::Unspec(c) => return (Verdict::Unspec(c), None),
    };
    let v = eval_top(&ast, tag);
    (v, Some(ast))
}

pub fn eval_top(ast: &Ast, tag: Tag) -> Verdict {
    let e = match eval(ast, Ctx::Top, tag) {
        Ok(e) => e,
        Err(v) => return v,
    };
    if e.sexa_unit && tag == Tag::None && e.func_unit {
        return Verdict::Unspec("time-mixed-with-angle-functions");
    }
    let c = if tag == Tag::Degrees {
        if !e.unit() {
            e.c.map(deg2rad_all)
        } else if e.addmix {
            return Verdict::Reject("mixed-units-under-degrees-tag");
        } else if e.plain {
            // bare factor scaling a unitized value under !degrees: the library rejects it,
            // the documentation speaks of "bare terms"; no verdict
            return Verdict::Unspec("bare-scale-factor-under-degrees-tag");
        } else {
            e.c
        }
    } else {
        e.c
    };
    if c.0.len() > CAND_CAP {
        return Verdict::Unspec("rounding-ambiguity-too-large");
    }
    Verdict::Value(c.0)
}

/// f32 candidates: `as f32` of every f64 candidate; a lone (signed) literal may
/// also keep the value a direct f32 parse gives it.
pub fn f32_cands(ast: &Ast, tag: Tag, c64: &[f64]) -> Vec<f32> {
    let mut out: Vec<f32> = c64.iter().map(|v| *v as f32).collect();
    if tag != Tag::Degrees
        && let Some((neg, t)) = ast.lone_literal()
        && let Ok(v) = t.parse::<f32>()
    {
        out.push(if neg { -v } else { v });
    }
    out
}

pub fn matches64(c: &[f64], v: f64) -> bool {
    c.iter().any(|x| key(*x) == key(v))
}
pub fn matches32(c: &[f32], v: f32) -> bool {
    c.iter().any(|x| (x.is_nan() && v.is_nan()) || x.to_bits() == v.to_bits())
}

#[cfg(test)]
mod tests {
    use super::*;
    fn val(s: &str, tag: Tag) -> Vec<f64> {
        match reference(s, tag).0 {
            Verdict::Value(v) => v,
            o => panic!("{s}: {o:?}"),
        }
    }
    #[test]
    fn basics() {
        assert!(matches64(&val("1 + 2*(3 - 4/5)", Tag::None), 1.0 + 2.0 * (3.0 - 4.0 / 5.0)));
        assert!(matches64(&val("3--2", Tag::None), 5.0));
        assert!(matches64(&val("deg(180)", Tag::Degrees), PI));
        assert!(matches64(&val("-0:30:30.5", Tag::None), -1830.5));
        assert!(matches!(reference("deg(90) + 90", Tag::Degrees).0, Verdict::Reject(_)));
        assert!(matches!(reference("1 2", Tag::None).0, Verdict::Reject(_)));
        assert!(matches!(reference("1__0", Tag::None).0, Verdict::Reject(_)));
        assert!(matches!(reference("10:60", Tag::None).0, Verdict::Reject(_)));
        assert!(matches!(reference("deg(deg(1))", Tag::None).0, Verdict::Unspec(_)));
    }
}
