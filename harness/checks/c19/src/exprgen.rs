//! Random expression generator (AST + rendered text with random spelling,
//! blanks, redundant parentheses) and string mutations.

use crate::refeval::Ast;
use vcore::rng::Rng;

pub struct G {
    pub ast: Ast,
    pub txt: String,
    /// 3 primary, 2 signed primary, 1 multiplicative chain, 0 additive chain
    prec: u8,
}

fn ws(rng: &mut Rng, nl: bool) -> &'static str {
    match rng.below(16) {
        0..=8 => "",
        9..=12 => " ",
        13 => "  ",
        14 => "\t",
        _ => {
            if nl {
                "\n"
            } else {
                " "
            }
        }
    }
}

fn digits(rng: &mut Rng, lo: usize, hi: usize, first_nonzero: bool) -> String {
    let n = rng.range(lo, hi);
    let mut s = String::new();
    for i in 0..n {
        let d = if i == 0 && first_nonzero { rng.range(1, 9) } else { rng.below(10) };
        s.push((b'0' + d as u8) as char);
    }
    s
}

/// insert underscores between digits of a digit string (valid placement)
fn underscored(rng: &mut Rng, d: &str) -> String {
    if d.len() < 2 || !rng.chance(1, 6) {
        return d.to_string();
    }
    let mut out = String::new();
    let cs: Vec<char> = d.chars().collect();
    for (i, c) in cs.iter().enumerate() {
        out.push(*c);
        if i + 1 < cs.len() && rng.chance(1, 3) {
            out.push('_');
        }
    }
    out
}

/// (clean text, displayed text)
pub fn gen_num(rng: &mut Rng) -> (String, String) {
    let (ip, fp, ex): (String, Option<String>, Option<String>) = match rng.below(14) {
        0..=3 => (digits(rng, 1, 3, true), None, None),
        4..=6 => (digits(rng, 1, 3, false), Some(digits(rng, 1, 4, false)), None),
        7 => (String::new(), Some(digits(rng, 1, 4, false)), None),
        8 => (digits(rng, 1, 3, true), Some(String::new()), None),
        9 => (digits(rng, 1, 2, true), None, Some(format!("{}{}", ["", "+", "-"][rng.below(3)], digits(rng, 1, 2, false)))),
        10 => (
            digits(rng, 1, 2, false),
            Some(digits(rng, 0, 3, false)),
            Some(format!("{}{}", ["", "+", "-"][rng.below(3)], digits(rng, 1, 3, false))),
        ),
        11 => (digits(rng, 10, 25, true), Some(digits(rng, 0, 20, false)), None),
        12 => ("0".into(), if rng.bool() { Some("0".into()) } else { None }, None),
        _ => (digits(rng, 4, 9, true), None, None),
    };
    let mut clean = ip.clone();
    let mut shown = underscored(rng, &ip);
    if let Some(f) = &fp {
        clean.push('.');
        clean.push_str(f);
        shown.push('.');
        shown.push_str(&underscored(rng, f));
    }
    if let Some(e) = &ex {
        clean.push('e');
        clean.push_str(e);
        shown.push(if rng.bool() { 'e' } else { 'E' });
        let (sign, ds) = if e.starts_with(['+', '-']) { e.split_at(1) } else { ("", e.as_str()) };
        shown.push_str(sign);
        shown.push_str(&underscored(rng, ds));
    }
    (clean, shown)
}

fn rand_case(rng: &mut Rng, w: &str) -> String {
    match rng.below(4) {
        0 => w.to_ascii_uppercase(),
        1 => w.chars().enumerate().map(|(i, c)| if (i + rng.below(2)) % 2 == 0 { c.to_ascii_uppercase() } else { c }).collect(),
        _ => w.to_string(),
    }
}

pub fn gen_sexa(rng: &mut Rng, allow_bad: bool) -> G {
    let d = match rng.below(6) {
        0 => "0".to_string(),
        1 => digits(rng, 4, 9, true),
        _ => {
            let nz = rng.bool();
            digits(rng, 1, 3, nz)
        }
    };
    let field = |rng: &mut Rng| -> (u32, String) {
        let v = if allow_bad && rng.chance(1, 12) { rng.range(60, 99) } else { rng.below(60) } as u32;
        let t = if v < 10 && rng.bool() { format!("{v}") } else { format!("{v:02}") };
        (v, t)
    };
    let (m, mt) = field(rng);
    let mut txt = format!("{}:{}", underscored(rng, &d), mt);
    let mut s = None;
    let mut frac = String::new();
    if rng.chance(2, 3) {
        let (sv, st) = field(rng);
        s = Some(sv);
        txt.push(':');
        txt.push_str(&st);
        if rng.chance(1, 2) {
            let (lo, hi) = if rng.chance(1, 8) { (7, 14) } else { (1, 4) };
            frac = digits(rng, lo, hi, false);
            txt.push('.');
            txt.push_str(&frac);
        }
    }
    G { ast: Ast::Sexa { d, m, s, frac }, txt, prec: 3 }
}

#[derive(Clone, Copy)]
pub struct Knobs {
    /// probability weights (out of 16) for unit functions / sexagesimal at primary level
    pub func: usize,
    pub sexa: usize,
    pub special: usize,
    pub nl: bool,
}

fn paren(g: G, rng: &mut Rng, nl: bool) -> G {
    G { ast: Ast::Paren(Box::new(g.ast)), txt: format!("({}{}{})", ws(rng, nl), g.txt, ws(rng, nl)), prec: 3 }
}

pub fn gen_expr(rng: &mut Rng, depth: usize, k: &Knobs, in_func: bool) -> G {
    if depth == 0 || rng.chance(1, 4) {
        return gen_primary(rng, depth, k, in_func);
    }
    match rng.below(10) {
        0..=3 => {
            // additive
            let l = gen_expr(rng, depth - 1, k, in_func);
            let mut r = gen_expr(rng, depth - 1, k, in_func);
            if r.prec == 0 {
                r = paren(r, rng, k.nl);
            }
            let op = if rng.bool() { '+' } else { '-' };
            G {
                txt: format!("{}{}{}{}{}", l.txt, ws(rng, k.nl), op, ws(rng, k.nl), r.txt),
                ast: Ast::Bin(op, Box::new(l.ast), Box::new(r.ast)),
                prec: 0,
            }
        }
        4..=7 => {
            let mut l = gen_expr(rng, depth - 1, k, in_func);
            let mut r = gen_expr(rng, depth - 1, k, in_func);
            if l.prec == 0 {
                l = paren(l, rng, k.nl);
            }
            if r.prec <= 1 {
                r = paren(r, rng, k.nl);
            }
            let op = if rng.bool() { '*' } else { '/' };
            G {
                txt: format!("{}{}{}{}{}", l.txt, ws(rng, k.nl), op, ws(rng, k.nl), r.txt),
                ast: Ast::Bin(op, Box::new(l.ast), Box::new(r.ast)),
                prec: 1,
            }
        }
        8 => {
            // sign run on a primary
            let mut p = gen_expr(rng, depth - 1, k, in_func);
            if p.prec < 3 {
                p = paren(p, rng, k.nl);
            }
            let n = rng.range(1, 3);
            let mut negs = 0;
            let mut run = String::new();
            for _ in 0..n {
                if rng.chance(2, 3) {
                    run.push('-');
                    negs += 1;
                } else {
                    run.push('+');
                }
            }
            let gap = if rng.chance(1, 6) { " " } else { "" };
            G {
                txt: format!("{run}{gap}{}", p.txt),
                ast: if negs % 2 == 1 { Ast::Neg(Box::new(p.ast)) } else { Ast::Plus(Box::new(p.ast)) },
                prec: 2,
            }
        }
        _ => {
            let g = gen_expr(rng, depth - 1, k, in_func);
            paren(g, rng, k.nl)
        }
    }
}

fn gen_primary(rng: &mut Rng, depth: usize, k: &Knobs, in_func: bool) -> G {
    let r = rng.below(16);
    if r < k.func && depth > 0 && !(in_func && rng.chance(15, 16)) {
        let is_deg = rng.chance(2, 3);
        let inner = gen_expr(rng, depth - 1, k, true);
        let name = rand_case(rng, if is_deg { "deg" } else { "rad" });
        return G {
            txt: format!("{name}{}({}{}{})", if rng.chance(1, 8) { " " } else { "" }, ws(rng, k.nl), inner.txt, ws(rng, k.nl)),
            ast: Ast::Func(is_deg, Box::new(inner.ast)),
            prec: 3,
        };
    }
    if r < k.func + k.sexa {
        return gen_sexa(rng, true);
    }
    if r < k.func + k.sexa + k.special {
        return if rng.bool() {
            G { ast: Ast::DotInf, txt: rand_case(rng, ".inf"), prec: 3 }
        } else {
            G { ast: Ast::DotNan, txt: rand_case(rng, ".nan"), prec: 3 }
        };
    }
    if rng.chance(1, 5) {
        return if rng.chance(2, 3) {
            G { ast: Ast::Pi, txt: rand_case(rng, "pi"), prec: 3 }
        } else {
            G { ast: Ast::Tau, txt: rand_case(rng, "tau"), prec: 3 }
        };
    }
    let (clean, shown) = gen_num(rng);
    G { ast: Ast::Num(clean), txt: shown, prec: 3 }
}

pub const MUT_ALPHABET: &[&str] = &[
    "0", "1", "5", "9", ".", "e", "E", "_", "+", "-", "*", "/", "(", ")", " ", ":", "pi", "tau", "deg", "rad", "deg(", "rad(", ".inf",
    ".nan", "inf", "nan", "\t", "x", "60", "__", "1e", ",", "#", "\u{e9}",
];

pub fn mutate(rng: &mut Rng, s: &str) -> String {
    let cs: Vec<char> = s.chars().collect();
    let mut out: Vec<char> = cs.clone();
    let n = rng.range(1, 2);
    for _ in 0..n {
        let len = out.len();
        match rng.below(7) {
            0 if len > 0 => {
                out.remove(rng.below(len));
            }
            1 => {
                let p = rng.below(len + 1);
                let ins: Vec<char> = rng.pick(MUT_ALPHABET).chars().collect();
                for (j, c) in ins.into_iter().enumerate() {
                    out.insert(p + j, c);
                }
            }
            2 if len > 0 => {
                let p = rng.below(len);
                let ins: Vec<char> = rng.pick(MUT_ALPHABET).chars().collect();
                out.remove(p);
                for (j, c) in ins.into_iter().enumerate() {
                    out.insert(p + j, c);
                }
            }
            3 if len > 1 => {
                let p = rng.below(len - 1);
                out.swap(p, p + 1);
            }
            4 if len > 0 => {
                let a = rng.below(len);
                let b = rng.range(a, len.min(a + 6));
                let slice: Vec<char> = out[a..b].to_vec();
                for (j, c) in slice.into_iter().enumerate() {
                    out.insert(b + j, c);
                }
            }
            5 if len > 1 => {
                out.truncate(rng.range(1, len - 1));
            }
            _ => {
                let p = rng.below(len + 1);
                out.insert(p, *rng.pick(&['(', ')', '_', '.', ':', '-']));
            }
        }
    }
    out.into_iter().collect()
}

/// Arbitrary short strings: token soup with non-ASCII and control characters.
pub fn soup(rng: &mut Rng) -> String {
    const PIECES: &[&str] = &[
        "0", "1", "7", "12", "0.5", ".", "..", "e", "E", "e5", "_", "+", "-", "*", "/", "(", ")", " ", ":", "pi", "tau", "deg", "rad", "(",
        ")", ".inf", ".nan", ".in", ".na", "inf", "nan", "\t", "\n", "\r", "x", "\u{e9}", "\u{20ac}", "\u{1f600}", "\u{a0}", "\u{2028}",
        "\u{0}", "\u{7f}", "\u{b}", "\u{c}", "\u{85}", "\u{feff}", "\u{300}", "\u{ff11}", "\"", "'", "\\", "#", "!", "&", "*a", "%", "@",
        "`", "|", ">", "[", "]", "{", "}", ",", "?", "~", "=", "<", "^", "$", ";",
    ];
    let n = rng.range(1, 10);
    let mut s = String::new();
    for _ in 0..n {
        s.push_str(*rng.pick(PIECES));
    }
    s
}

/// Operand for the commutativity relation: rendered so that it can stand on either
/// side of `+` (min_prec 1) or `*` (min_prec 2) without changing the parse; drawn from
/// the whole grammar including sexagesimal forms, unit calls and NESTED unit calls.
pub fn gen_operand(rng: &mut Rng, min_prec: u8) -> String {
    let k = Knobs { func: 4, sexa: 4, special: 1, nl: false };
    let g = match rng.below(10) {
        0..=2 => gen_sexa(rng, false),
        3..=5 => {
            // unit call whose argument may itself contain unit calls (in_func = false below)
            let is_deg = rng.bool();
            let depth = rng.range(0, 2);
            let inner = gen_expr(rng, depth, &k, false);
            G {
                txt: format!("{}({})", if is_deg { "deg" } else { "rad" }, inner.txt),
                ast: Ast::Func(is_deg, Box::new(inner.ast)),
                prec: 3,
            }
        }
        6 => {
            let (clean, shown) = gen_num(rng);
            G { ast: Ast::Num(clean), txt: shown, prec: 3 }
        }
        _ => {
            let depth = rng.range(0, 3);
            gen_expr(rng, depth, &k, false)
        }
    };
    if g.prec < min_prec { format!("({})", g.txt) } else { g.txt }
}
