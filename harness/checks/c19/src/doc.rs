//! Turning a scalar text into a YAML document (root / sequence item / mapping
//! value; plain, single- or double-quoted) and confirming with the raw parser
//! that the document really carries exactly that scalar text and tag.

use crate::refeval::Tag;
use serde::Deserialize;
use serde_saphyr::{Error, Options};
use vcore::reftree::{RawKind, raw_events};
use vcore::ydoc::{dq_escape, plain_safe, sq_escape};

#[derive(Clone, Copy, Debug, PartialEq, Eq)]
pub enum Ctx {
    Root,
    Seq,
    Map,
}

impl Ctx {
    pub fn name(self) -> &'static str {
        match self {
            Ctx::Root => "root",
            Ctx::Seq => "seq",
            Ctx::Map => "map",
        }
    }
    pub fn from_name(s: &str) -> Ctx {
        match s {
            "seq" => Ctx::Seq,
            "map" => Ctx::Map,
            _ => Ctx::Root,
        }
    }
}

fn tag_matches(tag: Tag, seen: &Option<String>) -> bool {
    match (tag, seen.as_deref()) {
        (Tag::None, None) => true,
        (Tag::Degrees, Some("!degrees")) => true,
        (Tag::Radians, Some("!radians")) => true,
        (Tag::Float, Some("!!float")) | (Tag::Float, Some("tag:yaml.org,2002:float")) => true,
        (Tag::Other, Some("!foo")) => true,
        _ => false,
    }
}

/// Does `doc` consist of exactly the intended scalar in the intended position?
pub fn confirm(doc: &str, text: &str, tag: Tag, ctx: Ctx) -> bool {
    let (evs, err) = raw_events(doc);
    if err.is_some() {
        return false;
    }
    let content: Vec<&RawKind> = evs
        .iter()
        .map(|e| &e.kind)
        .filter(|k| !matches!(k, RawKind::StreamStart | RawKind::StreamEnd | RawKind::DocStart(_) | RawKind::DocEnd | RawKind::Nothing))
        .collect();
    let is_target = |k: &RawKind| match k {
        RawKind::Scalar { value, tag: t, anchor, .. } => value == text && *anchor == 0 && tag_matches(tag, t),
        _ => false,
    };
    let docs = evs.iter().filter(|e| matches!(e.kind, RawKind::DocStart(_))).count();
    if docs != 1 {
        return false;
    }
    match ctx {
        Ctx::Root => content.len() == 1 && is_target(content[0]),
        Ctx::Seq => {
            content.len() == 3
                && matches!(content[0], RawKind::SeqStart { anchor: 0, tag: None })
                && is_target(content[1])
                && matches!(content[2], RawKind::SeqEnd)
        }
        Ctx::Map => {
            content.len() == 4
                && matches!(content[0], RawKind::MapStart { anchor: 0, tag: None })
                && matches!(content[1], RawKind::Scalar { value, tag: None, .. } if value == "k")
                && is_target(content[2])
                && matches!(content[3], RawKind::MapEnd)
        }
    }
}

/// style: 0 = plain if possible, 1 = single-quoted if possible, 2 = double-quoted.
/// Falls back towards double-quoted; `None` when no form is confirmed by the raw parser.
pub fn build(text: &str, tag: Tag, ctx: Ctx, style: u8) -> Option<String> {
    let mut forms: Vec<String> = Vec::new();
    if style == 0 && plain_safe(text) {
        forms.push(text.to_string());
    }
    if style <= 1
        && let Some(s) = sq_escape(text)
    {
        forms.push(s);
    }
    forms.push(dq_escape(text));
    for f in forms {
        let scalar = if tag == Tag::None { f } else { format!("{} {}", tag.source(), f) };
        let doc = match ctx {
            Ctx::Root => format!("{scalar}\n"),
            Ctx::Seq => format!("- {scalar}\n"),
            Ctx::Map => format!("k: {scalar}\n"),
        };
        if confirm(&doc, text, tag, ctx) {
            return Some(doc);
        }
    }
    None
}

pub fn mk_opts(on: bool, unlimited: bool) -> Options {
    let mut o = if unlimited { vcore::errs::unlimited_options() } else { Options::default() };
    #[allow(deprecated)]
    {
        o.angle_conversions = on;
    }
    o
}

#[derive(Deserialize)]
struct K<T> {
    k: T,
}

pub fn eval<T: for<'de> Deserialize<'de>>(doc: &str, ctx: Ctx, o: Options) -> Result<T, Error> {
    match ctx {
        Ctx::Root => serde_saphyr::from_str_with_options::<T>(doc, o),
        Ctx::Seq => {
            let (v,): (T,) = serde_saphyr::from_str_with_options(doc, o)?;
            Ok(v)
        }
        Ctx::Map => serde_saphyr::from_str_with_options::<K<T>>(doc, o).map(|k| k.k),
    }
}
