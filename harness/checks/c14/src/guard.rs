//! Runaway-allocation guard. Every document this check reads back is a few KiB of
//! text whose alias-free expansion is bounded by the raw-parser model (<= 100k
//! events), so no call of the library has any reason to request a single block of
//! 1 GiB. If one does while a case is being checked (a sequence visitor that never
//! sees the end of its sequence, a replay that never ends …) the process would be
//! killed for memory and the case would be lost; instead the allocator hook writes
//! the replay file for the case in hand, prints the `VIOLATION` line and exits 1.
//! Nothing is timed and nothing is inferred: the request itself is the observation.

use crate::spec::Spec;
use std::alloc::{GlobalAlloc, Layout, System};
use std::cell::Cell;
use std::sync::atomic::{AtomicBool, AtomicU64, Ordering};

const LIMIT: usize = 1 << 30;

pub struct GuardAlloc;

#[derive(Clone, Copy)]
struct Current {
    spec: *const Spec,
    family: &'static str,
    so: usize,
}

thread_local! {
    static CURRENT: Cell<Option<Current>> = const { Cell::new(None) };
}
static FIRED: AtomicBool = AtomicBool::new(false);
static SEED: AtomicU64 = AtomicU64::new(0);
static THOROUGH: AtomicBool = AtomicBool::new(false);

pub fn configure(seed: u64, thorough: bool) {
    SEED.store(seed, Ordering::Relaxed);
    THOROUGH.store(thorough, Ordering::Relaxed);
}

/// Marks the case being checked on this thread until dropped.
pub struct InCase;
impl InCase {
    pub fn enter(spec: &Spec, family: &'static str, so: usize) -> InCase {
        CURRENT.with(|c| c.set(Some(Current { spec: spec as *const Spec, family, so })));
        InCase
    }
}
impl Drop for InCase {
    fn drop(&mut self) {
        CURRENT.with(|c| c.set(None));
    }
}

fn runaway(size: usize) {
    let Some(cur) = CURRENT.try_with(|c| c.get()).ok().flatten() else {
        return; // not inside a case: let the allocation take its course
    };
    if FIRED.swap(true, Ordering::SeqCst) {
        loop {
            std::thread::sleep(std::time::Duration::from_secs(3600));
        }
    }
    CURRENT.with(|c| c.set(None));
    // SAFETY: the pointer was taken from a reference that outlives the `InCase` guard, and the
    // guard is still alive (we are inside a call made while it exists).
    let spec: &Spec = unsafe { &*cur.spec };
    let signature = format!("C14:readback-runaway-allocation:{}", cur.family);
    let detail = format!(
        "a single allocation of {size} bytes was requested while this case was being serialised / read back (documents here are a few KiB and their expansion is bounded at 100k events): the call would exhaust memory instead of returning"
    );
    let rec = serde_json::json!({
        "property": "C14",
        "signature": signature,
        "tier": if THOROUGH.load(Ordering::Relaxed) { "thorough" } else { "quick" },
        "seed": SEED.load(Ordering::Relaxed),
        "case": {"suite": "graph", "family": cur.family, "ser_opts": cur.so, "spec": spec},
        "detail": detail,
    });
    let dir = vcore::run::verif_root().join("replays").join("C14");
    let _ = std::fs::create_dir_all(&dir);
    let path = dir.join(format!("{:016x}.json", vcore::rng::fnv(rec.to_string().as_bytes())));
    let _ = std::fs::write(&path, serde_json::to_string_pretty(&rec).unwrap_or_default());
    eprintln!("  signature: {signature}\n  detail: {detail}");
    println!("VIOLATION property=C14 replay={}", path.display());
    std::process::exit(1);
}

unsafe impl GlobalAlloc for GuardAlloc {
    unsafe fn alloc(&self, l: Layout) -> *mut u8 {
        if l.size() >= LIMIT {
            runaway(l.size());
        }
        unsafe { System.alloc(l) }
    }
    unsafe fn alloc_zeroed(&self, l: Layout) -> *mut u8 {
        if l.size() >= LIMIT {
            runaway(l.size());
        }
        unsafe { System.alloc_zeroed(l) }
    }
    unsafe fn realloc(&self, p: *mut u8, l: Layout, new_size: usize) -> *mut u8 {
        if new_size >= LIMIT {
            runaway(new_size);
        }
        unsafe { System.realloc(p, l, new_size) }
    }
    unsafe fn dealloc(&self, p: *mut u8, l: Layout) {
        unsafe { System.dealloc(p, l) }
    }
}
