use serde::{Deserialize, Serialize};
use serde_saphyr::*;
use std::rc::Rc;
use std::collections::BTreeMap;

#[derive(Serialize, Deserialize, Debug)]
struct C { id: u32, next: Option<RcRecursive<C>>, kids: Vec<RcRecursive<C>>, back: Vec<RcRecursion<C>>, m: BTreeMap<String, RcRecursion<C>> }
#[derive(Serialize, Deserialize, Debug)]
struct R { root: RcRecursive<C>, more: Vec<RcRecursive<C>>, w: Vec<RcRecursion<C>> }

fn c(id: u32) -> RcRecursive<C> { RcRecursive::wrapping(C{id, next: None, kids: vec![], back: vec![], m: BTreeMap::new()}) }

#[derive(Serialize, Deserialize, Debug)]
struct P { s: Vec<RcAnchor<String>>, v: Vec<RcAnchor<Vec<i32>>>, o: Vec<RcAnchor<Option<i32>>>, u: Vec<RcAnchor<()>>, m: BTreeMap<String, RcAnchor<BTreeMap<String,i32>>>, e: Vec<E>, t: (RcAnchor<i32>, RcAnchor<i32>) }
#[derive(Serialize, Deserialize, Debug)]
enum E { L(i32), R(RcAnchor<String>), P{ l: RcAnchor<String>, r: RcAnchor<String> }, U }

fn main() {
    // A -> B -> weak A, self loop on B, shared strong B
    let a = c(1); let b = c(2);
    b.0.borrow_mut().as_mut().unwrap().back.push(RcRecursion::from(&a));
    b.0.borrow_mut().as_mut().unwrap().back.push(RcRecursion::from(&b));
    b.0.borrow_mut().as_mut().unwrap().m.insert("k".into(), RcRecursion::from(&a));
    a.0.borrow_mut().as_mut().unwrap().next = Some(RcRecursive(b.0.clone()));
    a.0.borrow_mut().as_mut().unwrap().kids.push(RcRecursive(b.0.clone()));
    let dang = { let x = c(9); RcRecursion::from(&x) };
    let r = R { root: RcRecursive(a.0.clone()), more: vec![RcRecursive(b.0.clone()), c(3)], w: vec![RcRecursion::from(&b), RcRecursion::from(&a)] };
    let s = to_string(&r).unwrap();
    println!("--- rec:\n{s}");
    match from_str::<R>(&s) { Ok(r2) => {
        let a2 = &r2.root; let ab = a2.borrow(); let b2 = ab.next.as_ref().unwrap();
        println!("b shared next/kids: {}", Rc::ptr_eq(&b2.0, &ab.kids[0].0));
        println!("b shared more: {}", Rc::ptr_eq(&b2.0, &r2.more[0].0));
        let bb = b2.borrow();
        println!("b.back0==a {}", bb.back[0].upgrade().map(|u| Rc::ptr_eq(&u.0,&a2.0)).unwrap_or(false));
        println!("b.back1==b {}", bb.back[1].upgrade().map(|u| Rc::ptr_eq(&u.0,&b2.0)).unwrap_or(false));
        println!("b.m.k==a {}", bb.m["k"].upgrade().map(|u| Rc::ptr_eq(&u.0,&a2.0)).unwrap_or(false));
        println!("w0==b {}", r2.w[0].upgrade().map(|u| Rc::ptr_eq(&u.0,&b2.0)).unwrap_or(false));
    } Err(e) => println!("ERR {e}") }
    let r = R { root: c(1), more: vec![], w: vec![dang] };
    let s = to_string(&r).unwrap();
    println!("--- rec dangling:\n{s}");
    println!("{:?}", from_str::<R>(&s).map(|r| r.w[0].is_dangling()).map_err(|e| e.to_string()));
    // recursion before recursive
    #[derive(Serialize, Deserialize, Debug)]
    struct R2 { w: Vec<RcRecursion<C>>, root: RcRecursive<C> }
    let a = c(1);
    let r = R2 { w: vec![RcRecursion::from(&a)], root: a };
    let s = to_string(&r).unwrap();
    println!("--- recursion first:\n{s}");
    println!("{:?}", from_str::<R2>(&s).map(|r| r.w[0].upgrade().map(|u| Rc::ptr_eq(&u.0,&r.root.0))).map_err(|e| e.to_string()));

    // payloads
    let s1 = Rc::new(String::from("hello")); let s2 = Rc::new(String::new()); let s3 = Rc::new("multi\nline\n".to_string());
    let v1 = Rc::new(vec![1,2]); let v0 = Rc::new(vec![]);
    let o0 = Rc::new(None); let o1 = Rc::new(Some(3));
    let u = Rc::new(());
    let m0 = Rc::new(BTreeMap::new()); let m1 = Rc::new([("x".to_string(), 1)].into_iter().collect::<BTreeMap<_,_>>());
    let i = Rc::new(5);
    let p = P {
        s: vec![RcAnchor(s1.clone()), RcAnchor(s2.clone()), RcAnchor(s3.clone()), RcAnchor(s1.clone()), RcAnchor(s2.clone()), RcAnchor(s3.clone())],
        v: vec![RcAnchor(v1.clone()), RcAnchor(v0.clone()), RcAnchor(v1.clone()), RcAnchor(v0.clone())],
        o: vec![RcAnchor(o0.clone()), RcAnchor(o1.clone()), RcAnchor(o0.clone()), RcAnchor(o1.clone())],
        u: vec![RcAnchor(u.clone()), RcAnchor(u.clone())],
        m: [("a".to_string(), RcAnchor(m0.clone())), ("b".to_string(), RcAnchor(m1.clone())), ("c".to_string(), RcAnchor(m0.clone())), ("d".to_string(), RcAnchor(m1.clone()))].into_iter().collect(),
        e: vec![E::L(1), E::R(RcAnchor(s1.clone())), E::P{l: RcAnchor(s1.clone()), r: RcAnchor(s2.clone())}, E::U],
        t: (RcAnchor(i.clone()), RcAnchor(i.clone())),
    };
    let s = to_string(&p).unwrap();
    println!("--- payloads:\n{s}");
    match from_str::<P>(&s) { Ok(q) => {
        println!("s: {} {} {}", Rc::ptr_eq(&q.s[0].0,&q.s[3].0), Rc::ptr_eq(&q.s[1].0,&q.s[4].0), Rc::ptr_eq(&q.s[2].0,&q.s[5].0));
        println!("s vals {:?} {:?} {:?}", q.s[0].0, q.s[1].0, q.s[2].0);
        println!("v: {} {} {:?} {:?}", Rc::ptr_eq(&q.v[0].0,&q.v[2].0), Rc::ptr_eq(&q.v[1].0,&q.v[3].0), q.v[0].0, q.v[1].0);
        println!("o: {} {}", Rc::ptr_eq(&q.o[0].0,&q.o[2].0), Rc::ptr_eq(&q.o[1].0,&q.o[3].0));
        println!("u: {}", Rc::ptr_eq(&q.u[0].0,&q.u[1].0));
        println!("m: {} {}", Rc::ptr_eq(&q.m["a"].0,&q.m["c"].0), Rc::ptr_eq(&q.m["b"].0,&q.m["d"].0));
        println!("t: {}", Rc::ptr_eq(&q.t.0.0,&q.t.1.0));
        if let (E::R(x), E::P{l, r}) = (&q.e[1], &q.e[2]) { println!("e: {} {} {}", Rc::ptr_eq(&x.0,&l.0), Rc::ptr_eq(&x.0, &q.s[0].0), Rc::ptr_eq(&r.0, &q.s[1].0)); }
    } Err(e) => println!("ERR {e}") }
}
