use serde::{Deserialize, Serialize};
use serde_saphyr::*;
use std::rc::Rc;
use std::sync::Arc;

#[derive(Serialize, Deserialize, Debug)]
struct Inner { name: String }
#[derive(Serialize, Deserialize, Debug)]
struct Outer { a: RcAnchor<Inner>, b: RcAnchor<Inner> }
#[derive(Serialize, Deserialize, Debug)]
struct Top { outer: RcAnchor<Outer> }

#[derive(Serialize, Deserialize)]
struct C { id: u32, kids: Vec<ArcRecursive<C>>, up: Vec<ArcRecursion<C>> }
#[derive(Serialize, Deserialize)]
struct Items { items: Vec<ArcRecursive<C>> }

#[derive(Serialize, Deserialize)]
struct RC { id: u32, w: Vec<RcRecursion<RC>> }
#[derive(Serialize, Deserialize)]
struct RTop { root: RcRecursive<RC> }

#[derive(Serialize, Deserialize, Debug)]
struct Opt { first: RcAnchor<Option<i32>>, mid: i32, second: RcAnchor<Option<i32>> }

fn main() {
    // D3-strong: unanchored wrapper nodes nested in an anchored wrapper node
    let y = "outer: &o\n  a:\n    name: x\n  b:\n    name: y\n";
    match from_str::<Top>(y) {
        Ok(t) => println!("D3s: a={:?} b={:?} ptr_eq={}", t.outer.a.name, t.outer.b.name, Rc::ptr_eq(&t.outer.a.0, &t.outer.b.0)),
        Err(e) => println!("D3s: ERR {e}"),
    }
    // D3: dangling RcRecursion nested in a RcRecursive
    let dropped = { let x = RcRecursive::wrapping(RC { id: 9, w: vec![] }); RcRecursion::from(&x) };
    let t = RTop { root: RcRecursive::wrapping(RC { id: 1, w: vec![dropped] }) };
    let s = to_string(&t).unwrap();
    print!("D3 text:\n{s}");
    match from_str::<RTop>(&s) {
        Ok(t2) => { let r = t2.root.borrow(); println!("D3: dangling={} points_to_root={}", r.w[0].is_dangling(), r.w[0].upgrade().map(|u| Rc::ptr_eq(&u.0, &t2.root.0)).unwrap_or(false)); }
        Err(e) => println!("D3: ERR {e}"),
    }
    // payload: anchor leaks
    let n = Rc::new(None);
    let o = Opt { first: RcAnchor(n.clone()), mid: 7, second: RcAnchor(n) };
    let s = to_string(&o).unwrap();
    print!("P1 text:\n{s}");
    println!("P1: {:?}", from_str::<Opt>(&s).map(|o| (*o.first.0, *o.second.0)).map_err(|e| e.to_string()));
    // D4 deadlock: run last, in a thread, with a timeout
    let (tx, rx) = std::sync::mpsc::channel();
    std::thread::spawn(move || {
        let parent = ArcRecursive::wrapping(C { id: 0, kids: vec![], up: vec![] });
        let child = ArcRecursive::wrapping(C { id: 1, kids: vec![], up: vec![ArcRecursion::from(&parent)] });
        parent.lock().unwrap().as_mut().unwrap().kids.push(ArcRecursive(child.0.clone()));
        let doc = Items { items: vec![child, parent] };
        let r = to_string(&doc);
        let _ = tx.send(r.is_ok());
    });
    match rx.recv_timeout(std::time::Duration::from_secs(5)) {
        Ok(ok) => println!("D4: to_string returned ok={ok}"),
        Err(_) => println!("D4: to_string did not return within 5 s (deadlock)"),
    }
    let _ = Arc::new(0);
}
