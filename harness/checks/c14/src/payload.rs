//! Payload kinds: the graph workload shares struct nodes and one-line strings;
//! this fixed list shares every other kind of value a wrapper may hold (scalars of
//! every style, null-like values, sequences, maps, tuples, enums) in three
//! contexts (sequence element, map value, struct field / nested struct).
//! Oracle as for graphs: equal values, equal `ptr_eq` partition of the positions,
//! one anchor definition per allocation and aliases elsewhere in the raw event
//! stream, and equal values when read into the same container with plain `T`.

use crate::analyse_events;
use serde::de::DeserializeOwned;
use serde::{Deserialize, Serialize};
use serde_json::json;
use serde_saphyr::{ArcAnchor, RcAnchor};
use std::collections::BTreeMap;
use std::fmt::Debug;
use std::rc::Rc;
use std::sync::Arc;
use vcore::obs::{catch, panic_site};
use vcore::rng::fnv_parts;
use vcore::run::Run;

pub struct Filter {
    pub kind: String,
    pub ctx: String,
    pub family: String,
}

pub trait Ptr<T>: Sized {
    const FAMILY: &'static str;
    fn new(v: T) -> Self;
    fn share(&self) -> Self;
    fn addr(&self) -> usize;
    fn get(&self) -> &T;
}

impl<T> Ptr<T> for RcAnchor<T> {
    const FAMILY: &'static str = "rc";
    fn new(v: T) -> Self {
        RcAnchor(Rc::new(v))
    }
    fn share(&self) -> Self {
        RcAnchor(self.0.clone())
    }
    fn addr(&self) -> usize {
        Rc::as_ptr(&self.0) as *const u8 as usize
    }
    fn get(&self) -> &T {
        &self.0
    }
}

impl<T> Ptr<T> for ArcAnchor<T> {
    const FAMILY: &'static str = "arc";
    fn new(v: T) -> Self {
        ArcAnchor(Arc::new(v))
    }
    fn share(&self) -> Self {
        ArcAnchor(self.0.clone())
    }
    fn addr(&self) -> usize {
        Arc::as_ptr(&self.0) as *const u8 as usize
    }
    fn get(&self) -> &T {
        &self.0
    }
}

#[derive(Serialize, Deserialize)]
struct PStruct<P> {
    first: P,
    mid: i32,
    /// plain multi-line text (block scalar without any anchor) between the wrapper fields
    note: String,
    inner: PInner<P>,
    second: P,
    tail: Vec<P>,
}

#[derive(Serialize, Deserialize)]
struct PInner<P> {
    z: P,
    flag: bool,
}

/// A container whose pointer positions can be listed in serialisation order.
trait Positions<P> {
    fn positions(&self) -> Vec<&P>;
}
impl<P> Positions<P> for Vec<P> {
    fn positions(&self) -> Vec<&P> {
        self.iter().collect()
    }
}
impl<P> Positions<P> for BTreeMap<String, P> {
    fn positions(&self) -> Vec<&P> {
        self.values().collect()
    }
}
impl<P> Positions<P> for PStruct<P> {
    fn positions(&self) -> Vec<&P> {
        let mut v = vec![&self.first, &self.inner.z, &self.second];
        v.extend(self.tail.iter());
        v
    }
}

fn partition<T, P: Ptr<T>>(ps: &[&P]) -> Vec<u32> {
    let mut seen: Vec<usize> = Vec::new();
    ps.iter()
        .map(|p| {
            let a = p.addr();
            match seen.iter().position(|x| *x == a) {
                Some(i) => i as u32,
                None => {
                    seen.push(a);
                    (seen.len() - 1) as u32
                }
            }
        })
        .collect()
}

#[allow(clippy::too_many_arguments)]
fn one_ctx<T, P, C, M>(run: &Run, kind: &str, ctx: &str, original: C, mirror_expected: M, filter: Option<&Filter>)
where
    T: PartialEq + Debug,
    P: Ptr<T>,
    C: Positions<P> + Serialize + DeserializeOwned,
    M: Serialize + DeserializeOwned + PartialEq + Debug,
{
    if let Some(f) = filter
        && (f.kind != kind || f.ctx != ctx || f.family != P::FAMILY)
    {
        return;
    }
    let case = || json!({"suite": "payload", "kind": kind, "ctx": ctx, "family": P::FAMILY});
    // One signature per (payload class, context); kinds that are emitted as the same kind of
    // YAML node share a class. The failing stage is part of the detail text.
    let class = match kind {
        "option-none" | "unit" => "null-scalar",
        "str-multiline" | "str-long" => "block-scalar",
        "vec" | "vec-empty" | "vec-of-struct" | "tuple" => "sequence",
        "enum-newtype" | "enum-struct" | "enum-tuple" => "enum-variant-with-data",
        k => k,
    };
    let sig = |_stage: &str| format!("C14:payload:{class}:{ctx}");
    let detail = |stage: &str, d: String| format!("[{kind} / {ctx} / {} / stage {stage}] {d}", P::FAMILY);
    let pos0 = original.positions();
    let part0 = partition::<T, P>(&pos0);
    let classes = part0.iter().max().map(|m| *m as usize + 1).unwrap_or(0);
    run.eval();
    let text = match catch(|| serde_saphyr::to_string(&original)) {
        Err(p) => return crate::report(run, &format!("C14:panic:{}", panic_site(&p)), case(), p),
        Ok(Err(e)) => return crate::report(run, &sig("serialize-err"), case(), detail("serialize-err", format!("to_string failed: {e}"))),
        Ok(Ok(t)) => t,
    };
    let ev = match analyse_events(&text) {
        Ok(ev) => ev,
        Err(why) => return crate::report(run, &sig("emit-unparsable"), case(), detail("emit-unparsable", format!("raw parser rejects the emitted text ({why}):\n{text}"))),
    };
    if ev.defs != classes || ev.aliases != part0.len() - classes || ev.seq != part0 {
        return crate::report(run, 
            &sig("emit-structure"),
            case(),
            detail(
                "emit-structure",
                format!(
                    "{} definitions / {} aliases / sequence {:?}; expected {} / {} / {:?}:\n{text}",
                    ev.defs,
                    ev.aliases,
                    ev.seq,
                    classes,
                    part0.len() - classes,
                    part0
                ),
            ),
        );
    }
    run.eval();
    match catch(|| serde_saphyr::from_str::<C>(&text)) {
        Err(p) => return crate::report(run, &format!("C14:panic:{}", panic_site(&p)), case(), p),
        Ok(Err(e)) => return crate::report(run, &sig("roundtrip-err"), case(), detail("roundtrip-err", format!("from_str failed: {e}\ntext:\n{text}"))),
        Ok(Ok(back)) => {
            let pos1 = back.positions();
            if pos1.len() != pos0.len() || pos0.iter().zip(pos1.iter()).any(|(a, b)| a.get() != b.get()) {
                let v0: Vec<&T> = pos0.iter().map(|p| p.get()).collect();
                let v1: Vec<&T> = pos1.iter().map(|p| p.get()).collect();
                return crate::report(run, &sig("value"), case(), detail("value", format!("values {v0:?} read back as {v1:?}\ntext:\n{text}")));
            }
            let part1 = partition::<T, P>(&pos1);
            if part1 != part0 {
                return crate::report(run, &sig("topology"), case(), detail("topology", format!("ptr_eq partition {part0:?} read back as {part1:?}\ntext:\n{text}")));
            }
        }
    }
    run.eval();
    match catch(|| serde_saphyr::from_str::<M>(&text)) {
        Err(p) => return crate::report(run, &format!("C14:panic:{}", panic_site(&p)), case(), p),
        Ok(Err(e)) => return crate::report(run, &sig("mirror-err"), case(), detail("mirror-err", format!("plain mirror failed: {e}\ntext:\n{text}"))),
        Ok(Ok(m)) => {
            if m != mirror_expected {
                return crate::report(run, &sig("mirror-value"), case(), detail("mirror-value", format!("plain mirror {m:?} != {mirror_expected:?}\ntext:\n{text}")));
            }
        }
    }
    run.count("payload/cases_ok", 1);
    run.observe("payload_kinds_ok", &format!("{kind}:{ctx}:{}", P::FAMILY));
    run.nontrivial(fnv_parts(&[b"payload", kind.as_bytes(), ctx.as_bytes(), P::FAMILY.as_bytes()]));
}

#[derive(Serialize, Deserialize, PartialEq, Debug)]
struct MStruct<T> {
    first: T,
    mid: i32,
    note: String,
    inner: MInner<T>,
    second: T,
    tail: Vec<T>,
}
#[derive(Serialize, Deserialize, PartialEq, Debug)]
struct MInner<T> {
    z: T,
    flag: bool,
}

fn one_kind_fam<T, P>(run: &Run, kind: &str, x: &T, y: &T, filter: Option<&Filter>)
where
    T: Clone + PartialEq + Debug + Serialize + DeserializeOwned,
    P: Ptr<T> + Serialize + DeserializeOwned,
{
    // x is shared, y is shared, y2 is an unshared allocation with the same value as y
    let mk = || (P::new(x.clone()), P::new(y.clone()), P::new(y.clone()));
    {
        let (px, py, py2) = mk();
        let c: Vec<P> = vec![px.share(), py.share(), px.share(), py2, py.share(), px];
        let m: Vec<T> = vec![x.clone(), y.clone(), x.clone(), y.clone(), y.clone(), x.clone()];
        one_ctx::<T, P, _, _>(run, kind, "seq", c, m, filter);
    }
    {
        let (px, py, py2) = mk();
        let c: BTreeMap<String, P> =
            [("a", px.share()), ("b", py.share()), ("c", px), ("d", py2), ("e", py)].into_iter().map(|(k, v)| (k.to_string(), v)).collect();
        let m: BTreeMap<String, T> =
            [("a", x), ("b", y), ("c", x), ("d", y), ("e", y)].into_iter().map(|(k, v)| (k.to_string(), v.clone())).collect();
        one_ctx::<T, P, _, _>(run, kind, "map", c, m, filter);
    }
    {
        let (px, py, py2) = mk();
        let c = PStruct { first: px.share(), mid: 7, note: "n1\nn2\n".into(), inner: PInner { z: py.share(), flag: true }, second: px.share(), tail: vec![py, py2, px] };
        let m = MStruct {
            first: x.clone(),
            mid: 7,
            note: "n1\nn2\n".into(),
            inner: MInner { z: y.clone(), flag: true },
            second: x.clone(),
            tail: vec![y.clone(), y.clone(), x.clone()],
        };
        one_ctx::<T, P, _, _>(run, kind, "struct", c, m, filter);
    }
}

fn one_kind<T>(run: &Run, kind: &str, x: T, y: T, filter: Option<&Filter>)
where
    T: Clone + PartialEq + Debug + Serialize + DeserializeOwned + Send + Sync + 'static,
{
    one_kind_fam::<T, RcAnchor<T>>(run, kind, &x, &y, filter);
    one_kind_fam::<T, ArcAnchor<T>>(run, kind, &x, &y, filter);
}

#[derive(Clone, PartialEq, Debug, Serialize, Deserialize)]
struct Small {
    a: i32,
    b: String,
}

#[derive(Clone, PartialEq, Debug, Serialize, Deserialize)]
enum En {
    U,
    N(i32),
    S { a: i32 },
    T(i32, i32),
}

pub fn run_suite(run: &Run, filter: Option<&Filter>) {
    let s = |t: &str| t.to_string();
    one_kind(run, "str-simple", s("hello"), s("world"), filter);
    one_kind(run, "str-empty", s(""), s("x"), filter);
    one_kind(run, "str-needs-quotes", s("*a1"), s("&a1 x: y"), filter);
    one_kind(run, "str-null-like", s("null"), s("~"), filter);
    one_kind(run, "str-multiline", s("l1\nl2\n"), s("m1\n\nm2"), filter);
    one_kind(run, "str-long", "word ".repeat(40), "other ".repeat(30), filter);
    one_kind(run, "i64", 5i64, -7i64, filter);
    one_kind(run, "bool", true, false, filter);
    one_kind(run, "f64", 1.5f64, -0.25f64, filter);
    one_kind(run, "char", 'c', '*', filter);
    one_kind(run, "option-none", None::<i32>, Some(3), filter);
    one_kind(run, "option-some", Some(4i32), Some(3), filter);
    one_kind(run, "unit", (), (), filter);
    one_kind(run, "vec-empty", Vec::<i32>::new(), vec![1], filter);
    one_kind(run, "vec", vec![1i32, 2], vec![3], filter);
    one_kind(run, "vec-of-struct", vec![Small { a: 1, b: s("p") }], vec![Small { a: 2, b: s("q") }, Small { a: 3, b: s("r") }], filter);
    one_kind(run, "map-empty", BTreeMap::<String, i32>::new(), [(s("k"), 1)].into_iter().collect::<BTreeMap<_, _>>(), filter);
    one_kind(
        run,
        "map",
        [(s("k"), 1i32), (s("l"), 2)].into_iter().collect::<BTreeMap<_, _>>(),
        [(s("m"), 3)].into_iter().collect::<BTreeMap<_, _>>(),
        filter,
    );
    one_kind(run, "tuple", (1i32, s("t")), (2i32, s("u")), filter);
    one_kind(run, "struct", Small { a: 1, b: s("p") }, Small { a: 2, b: s("q") }, filter);
    one_kind(run, "enum-unit", En::U, En::U, filter);
    one_kind(run, "enum-newtype", En::N(1), En::N(2), filter);
    one_kind(run, "enum-struct", En::S { a: 1 }, En::S { a: 2 }, filter);
    one_kind(run, "enum-tuple", En::T(1, 2), En::T(3, 4), filter);
}
