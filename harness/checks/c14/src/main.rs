//! C14 — shared-pointer topology survives the round trip through anchors and aliases.
//!
//! Oracle (reference model + invariants on the emitted event stream):
//! an abstract graph spec is built into concrete derived structs whose fields are
//! `RcAnchor`/`ArcAnchor`/`RcWeakAnchor`/`ArcWeakAnchor` or the recursive wrappers
//! (`fam.rs`), serialised with `to_string_with_options`, and read back with
//! `from_str_with_options`. Both graphs are labelled canonically by a DFS in field
//! order (`fam::Canon`): the label strings are equal iff value tree, partition of
//! pointer positions by `ptr_eq` and weak -> class-or-dangling map are equal. The
//! emitted text is run through the raw parser: the number of anchor definitions
//! must equal the number of allocations, every other live reference must be an
//! alias, and the definition/alias sequence must be the canonical reference
//! sequence. The same text read into the mirror type with plain `Box` fields must
//! equal the alias-free expansion of the spec. One metamorphic relation on top:
//! the same text without the anchors that no alias refers to (confirmed by the raw
//! parser to be the same event stream minus those anchors) must give the same graph.
//!
//! Workloads: the fixed payload-kind x context list (`payload.rs`), the exhaustive
//! space of small graphs (`spec::exhaustive_spec`), seeded random graphs of <= 40
//! nodes with the sharing probability swept 0..1 (`spec::random_spec`).
//!
//! No verdict (counted as `unspecified/...`): a weak reference serialised before its
//! strong target, a cycle closed through the non-recursive weak wrappers, a dangling
//! `RcRecursion`/`ArcRecursion` — `Err` and the correct topology are both accepted
//! there, a silently different graph is a violation.

mod child;
mod fam;
mod guard;
mod payload;
mod spec;

#[global_allocator]
static ALLOC: guard::GuardAlloc = guard::GuardAlloc;

use fam::Canon;
use serde_json::json;
use spec::{GenParams, Spec};
use std::cell::Cell;
use std::rc::Rc;
use vcore::obs::{catch, panic_site};
use vcore::reftree::{RawKind, raw_events};
use vcore::rng::{Rng, fnv_parts};
use vcore::run::{Finish, Run, Tier, par_range};

/// Cases whose alias-free expansion has more events than this are not read back
/// (every alias replays its whole target): counted, no verdict.
const MAX_EXPANDED_EVENTS: u64 = 100_000;

/// Options for reading back: no budget, no per-anchor or depth limits, but a ceiling on the total
/// number of replayed events. The raw-parser model bounds the replay volume of every case that is
/// read back by `MAX_EXPANDED_EVENTS`, so the ceiling (4x that) is never reached by a correct
/// expansion; it turns a runaway replay into an `Err` (reported as a violation) instead of letting
/// the process run out of memory.
#[allow(deprecated)]
pub fn read_opts() -> serde_saphyr::Options {
    let mut o = vcore::errs::unlimited_options();
    o.alias_limits.max_total_replayed_events = (4 * MAX_EXPANDED_EVENTS) as usize;
    o
}

/// Serializer option vectors (index = `ser_opts` in replay files; 0..=4 keep their old meaning).
pub const N_SER_OPTS: usize = 13;

fn anchor_name(i: usize) -> String {
    format!("N{i}x")
}

fn anchor_name_2(i: usize) -> String {
    format!("réf-{i}.{}", i * 7 % 5)
}

/// Does this option vector use the built-in anchor names `a<k>`?
pub fn default_anchor_names(v: usize) -> bool {
    !matches!(v, 3 | 9 | 12)
}

#[allow(deprecated)]
pub fn ser_opts(v: usize) -> serde_saphyr::SerializerOptions {
    let mut o = serde_saphyr::SerializerOptions::default();
    match v {
        1 => o.indent_step = 4,
        2 => o.quote_all = true,
        3 => o.anchor_generator = Some(anchor_name),
        4 => o.tagged_enums = true,
        5 => o.compact_list_indent = true,
        6 => o.yaml_12 = true,
        7 => o.indent_step = 1,
        8 => o.indent_step = 7,
        9 => o.anchor_generator = Some(anchor_name_2),
        10 => o.prefer_block_scalars = false,
        11 => {
            o.indent_step = 3;
            o.compact_list_indent = true;
            o.quote_all = true;
            o.yaml_12 = true;
        }
        12 => {
            o.indent_step = 4;
            o.compact_list_indent = true;
            o.tagged_enums = true;
            o.anchor_generator = Some(anchor_name);
        }
        _ => {}
    }
    o
}

/// What the raw parser sees in the emitted text.
pub struct EvInfo {
    pub defs: usize,
    pub aliases: usize,
    /// anchor ids renumbered by first appearance, one entry per definition or alias, in document order
    pub seq: Vec<u32>,
    /// events of the alias-free expansion (alias to a closed anchor = its size, to an open one = 1)
    pub expanded: u64,
    pub cyclic: bool,
    pub docs: usize,
    /// renumbered labels of anchors that no alias refers to
    pub unreferenced: Vec<u32>,
    /// (label, labels of the anchored nodes that enclose its definition)
    pub enclosing: Vec<(u32, Vec<u32>)>,
    /// the event stream with positions and anchor ids removed (`&`/`*` + renumbered label kept)
    pub skeleton: Vec<String>,
}

impl EvInfo {
    /// The skeleton this stream would have without the anchors in `drop` (labels
    /// renumbered by first appearance among the remaining ones).
    pub fn skeleton_without(&self, drop: &[u32]) -> Vec<String> {
        let mut renum: std::collections::HashMap<u32, u32> = std::collections::HashMap::new();
        self.skeleton
            .iter()
            .map(|s| {
                let Some((head, lab)) = s.rsplit_once(['&', '*']) else {
                    return s.clone();
                };
                let Ok(l) = lab.parse::<u32>() else {
                    return s.clone();
                };
                let mark = &s[head.len()..head.len() + 1];
                if drop.contains(&l) {
                    return head.to_string();
                }
                let n = renum.len() as u32;
                let l2 = *renum.entry(l).or_insert(n);
                format!("{head}{mark}{l2}")
            })
            .collect()
    }
}

pub fn analyse_events(text: &str) -> Result<EvInfo, String> {
    let (evs, err) = raw_events(text);
    if let Some(e) = err {
        return Err(format!("scan error: {} at line {} col {}", e.info, e.line, e.col));
    }
    let mut info =
        EvInfo { defs: 0, aliases: 0, seq: Vec::new(), expanded: 0, cyclic: false, docs: 0, unreferenced: Vec::new(), enclosing: Vec::new(), skeleton: Vec::new() };
    let mut open_labels: Vec<Option<u32>> = Vec::new();
    let mut alias_count: std::collections::HashMap<u32, u32> = std::collections::HashMap::new();
    let mut renum: std::collections::HashMap<usize, u32> = std::collections::HashMap::new();
    let mut size: std::collections::HashMap<usize, u64> = std::collections::HashMap::new();
    let mut stack: Vec<(usize, u64)> = Vec::new();
    let mut defined: std::collections::HashSet<usize> = std::collections::HashSet::new();
    let mut count: u64 = 0;
    let mut see = |info: &mut EvInfo, id: usize| -> u32 {
        let n = renum.len() as u32;
        let l = *renum.entry(id).or_insert(n);
        info.seq.push(l);
        l
    };
    for e in &evs {
        match &e.kind {
            RawKind::DocStart(_) => info.docs += 1,
            RawKind::Scalar { anchor, value, style, tag } => {
                count += 1;
                let mut sk = format!("={value:?}{}{}", vcore::reftree::style_char(*style), tag.as_deref().unwrap_or(""));
                if *anchor != 0 {
                    if !defined.insert(*anchor) {
                        return Err(format!("anchor id {anchor} defined twice"));
                    }
                    info.defs += 1;
                    let l = see(&mut info, *anchor);
                    sk.push_str(&format!("&{l}"));
                    info.enclosing.push((l, open_labels.iter().flatten().copied().collect()));
                    size.insert(*anchor, 1);
                }
                info.skeleton.push(sk);
            }
            RawKind::SeqStart { anchor, tag } | RawKind::MapStart { anchor, tag } => {
                count += 1;
                let mut sk = format!("{}{}", if matches!(e.kind, RawKind::SeqStart { .. }) { "[" } else { "{" }, tag.as_deref().unwrap_or(""));
                if *anchor != 0 {
                    if !defined.insert(*anchor) {
                        return Err(format!("anchor id {anchor} defined twice"));
                    }
                    info.defs += 1;
                    let l = see(&mut info, *anchor);
                    sk.push_str(&format!("&{l}"));
                    info.enclosing.push((l, open_labels.iter().flatten().copied().collect()));
                    open_labels.push(Some(l));
                } else {
                    open_labels.push(None);
                }
                info.skeleton.push(sk);
                stack.push((*anchor, count - 1));
            }
            RawKind::SeqEnd | RawKind::MapEnd => {
                count += 1;
                info.skeleton.push("end".into());
                open_labels.pop();
                if let Some((a, start)) = stack.pop()
                    && a != 0
                {
                    size.insert(a, count - start);
                }
            }
            RawKind::Alias(id) => {
                info.aliases += 1;
                if !defined.contains(id) {
                    return Err(format!("alias to anchor id {id} before its definition"));
                }
                let l = see(&mut info, *id);
                *alias_count.entry(l).or_insert(0) += 1;
                info.skeleton.push(format!("alias*{l}"));
                match size.get(id) {
                    Some(s) => count = count.saturating_add(*s),
                    None => {
                        count += 1;
                        info.cyclic = true;
                    }
                }
            }
            _ => {}
        }
    }
    info.expanded = count;
    info.unreferenced = (0..renum.len() as u32).filter(|l| !alias_count.contains_key(l)).collect();
    Ok(info)
}

// ---- cheap per-thread counters (merged into the run at the end; `Run::count` takes a
// global lock and allocates, which is too slow for millions of tiny cases)
type CounterMap = std::collections::HashMap<&'static str, (u64, u64)>;
static REGISTRY: std::sync::Mutex<Vec<std::sync::Arc<std::sync::Mutex<CounterMap>>>> = std::sync::Mutex::new(Vec::new());
thread_local! {
    // one map per worker thread, registered globally so that nothing depends on
    // thread-local destructors having run when the totals are read
    static LOCAL: std::sync::Arc<std::sync::Mutex<CounterMap>> = {
        let a = std::sync::Arc::new(std::sync::Mutex::new(CounterMap::new()));
        REGISTRY.lock().unwrap().push(a.clone());
        a
    };
}
fn cnt(k: &'static str, n: u64) {
    LOCAL.with(|l| l.lock().unwrap().entry(k).or_insert((0, 0)).0 += n);
}
fn mx(k: &'static str, v: u64) {
    LOCAL.with(|l| {
        let mut b = l.lock().unwrap();
        let e = b.entry(k).or_insert((0, 0));
        e.1 = e.1.max(v);
    });
}
fn flush_counters(run: &Run) {
    let mut total: std::collections::BTreeMap<&'static str, (u64, u64)> = std::collections::BTreeMap::new();
    for m in REGISTRY.lock().unwrap().iter() {
        for (k, (sum, m)) in m.lock().unwrap().iter() {
            let e = total.entry(k).or_insert((0, 0));
            e.0 += *sum;
            e.1 = e.1.max(*m);
        }
    }
    for (k, (sum, m)) in total.iter() {
        if let Some(name) = k.strip_prefix("max/") {
            run.max(name, *m);
        } else {
            run.count(k, *sum);
        }
    }
}
fn unspecified_key(u: &str, ok: bool) -> &'static str {
    match (u, ok) {
        ("weak-before-strong", false) => "unspecified/weak-before-strong:err",
        ("weak-before-strong", true) => "unspecified/weak-before-strong:ok-correct-topology",
        ("cycle-through-non-recursive-weak", false) => "unspecified/cycle-through-non-recursive-weak:err",
        ("cycle-through-non-recursive-weak", true) => "unspecified/cycle-through-non-recursive-weak:ok-correct-topology",
        ("dangling-recursion-wrapper", false) => "unspecified/dangling-recursion-wrapper:err",
        _ => "unspecified/dangling-recursion-wrapper:ok-correct-topology",
    }
}

/// Does the error point at a plain `null` scalar in `text`?
fn error_points_at_null(e: &serde_saphyr::Error, text: &str) -> bool {
    match vcore::errs::line_col(e) {
        Some((line, col)) if line >= 1 && col >= 1 => text
            .lines()
            .nth(line as usize - 1)
            .map(|l| l.chars().skip(col as usize - 1).collect::<String>())
            .is_some_and(|rest| rest == "null" || rest.starts_with("null ")),
        _ => false,
    }
}

static SIG_HITS: std::sync::Mutex<std::collections::BTreeMap<String, u64>> = std::sync::Mutex::new(std::collections::BTreeMap::new());

/// Report a violation: every hit is counted per signature (evidence `signature_hits/..`), the
/// first hit of each signature goes to `Run::violation` (one replay file per signature, so that
/// the cap on replay files cannot hide a signature behind many witnesses of another one).
pub fn report(run: &Run, signature: &str, case: serde_json::Value, detail: impl Into<String>) {
    let first = {
        let mut g = SIG_HITS.lock().unwrap();
        let e = g.entry(signature.to_string()).or_insert(0);
        *e += 1;
        *e == 1
    };
    if first {
        run.violation(signature, case, detail);
    }
}

/// Number of documents the raw parser sees (None on a scan error).
fn analyse_stream_docs(text: &str) -> Option<usize> {
    let (evs, err) = raw_events(text);
    if err.is_some() {
        return None;
    }
    Some(evs.iter().filter(|e| matches!(e.kind, RawKind::DocStart(_))).count())
}

/// Pump counters from the hook trace (evidence only).
#[derive(Default)]
struct Pumps {
    parser: Cell<u64>,
    replay: Cell<u64>,
    synth: Cell<u64>,
    alias_push: Cell<u64>,
}

/// Remove every `&a<k>` whose anchor is never aliased; confirmed against the raw
/// parser (same event stream minus those anchors), else `None`.
fn strip_unreferenced(text: &str, ev: &EvInfo) -> Option<String> {
    let mut out = text.to_string();
    for l in &ev.unreferenced {
        let name = format!("&a{}", l + 1);
        // an anchor token follows "- " or ": " and is followed by a blank or a line break
        let mut found = None;
        let mut from = 0;
        while let Some(i) = out[from..].find(&name) {
            let at = from + i;
            let before_ok = at >= 1 && out.as_bytes()[at - 1] == b' ';
            let after = out.as_bytes().get(at + name.len()).copied();
            if before_ok && matches!(after, Some(b' ') | Some(b'\n')) {
                if found.is_some() {
                    return None; // ambiguous
                }
                found = Some(at);
            }
            from = at + name.len();
        }
        let at = found?;
        let end = at + name.len() + usize::from(out.as_bytes().get(at + name.len()) == Some(&b' '));
        out.replace_range(at..end, "");
    }
    let ev2 = analyse_events(&out).ok()?;
    if ev2.skeleton != ev.skeleton_without(&ev.unreferenced) {
        return None;
    }
    Some(out)
}

/// The first difference is an `up` (Option<weak>) position that held a live weak and reads back `none`.
fn optional_weak_became_none(a: &str, b: &str) -> bool {
    let ta: Vec<&str> = a.split(' ').collect();
    let tb: Vec<&str> = b.split(' ').collect();
    let k = ta.iter().zip(tb.iter()).take_while(|(x, y)| x == y).count();
    k >= 1 && k < ta.len() && k < tb.len() && ta[k - 1] == "up" && ta[k].starts_with('W') && ta[k] != "W-" && tb[k] == "none"
}

fn first_diff(a: &str, b: &str) -> String {
    let ta: Vec<&str> = a.split(' ').collect();
    let tb: Vec<&str> = b.split(' ').collect();
    let k = ta.iter().zip(tb.iter()).take_while(|(x, y)| x == y).count();
    let ctx = |t: &[&str]| t[k.saturating_sub(6)..(k + 4).min(t.len())].join(" ");
    format!("first difference at token {k}: before `{}` | after `{}`", ctx(&ta), ctx(&tb))
}

struct CaseCtx<'a> {
    run: &'a Run,
    spec: &'a Spec,
    so: usize,
    /// outcome of `to_string_with_options` obtained in a child process (cases whose
    /// serialisation is not executed on a worker thread, see `child.rs`)
    pre_text: Option<Result<Result<String, String>, String>>,
}

macro_rules! family_check {
    ($fname:ident, $m:ident, $label:expr, $rec:expr, $weakname:expr) => {
        fn $fname(cx: &CaseCtx) {
            let run = cx.run;
            let spec = cx.spec;
            let so = cx.so;
            let case = || json!({"suite": "graph", "family": $label, "ser_opts": so, "spec": spec});
            let _in_case = guard::InCase::enter(spec, $label, so);
            if !spec.valid($rec) {
                run.inconclusive("generator: spec not valid for this family");
                return;
            }
            // ---- build + canonical labelling of the original
            let built = catch(|| {
                let d = fam::$m::build(spec);
                let c = fam::$m::canon(&d);
                (d, c)
            });
            let (doc, c0) = match built {
                Ok(x) => x,
                Err(p) => {
                    run.inconclusive(&format!("harness: build panicked at {}", panic_site(&p)));
                    return;
                }
            };
            if c0.unresolved_weak() > 0 {
                run.inconclusive("generator: live weak target not strongly reachable from the document");
                return;
            }
            if c0.strong_cycles > 0 || c0.uninit > 0 {
                run.inconclusive("generator: strong cycle or uninitialised node in the original");
                return;
            }
            let mut unspecified: Vec<&'static str> = Vec::new();
            if c0.weak_before_strong > 0 {
                unspecified.push("weak-before-strong");
            }
            if !$rec && c0.back_edges > 0 {
                unspecified.push("cycle-through-non-recursive-weak");
            }
            if $rec && c0.weak_dangling > 0 {
                unspecified.push("dangling-recursion-wrapper");
            }
            let has_cycle = spec.has_cycle();

            // ---- serialise
            if $label == "arcrec" && cx.pre_text.is_none() && c0.weak_before_strong > 0 && spec.strong_reference_to_open_definition() {
                // A strong ArcRecursive reference is reached while the definition of its target is being
                // written (through an ArcRecursion met before the strong owner). If `Serialize for
                // ArcRecursive` takes the node's mutex at that point the calling thread blocks for ever,
                // so this serialisation is executed in a child process (end of the run, `child.rs`) and
                // the rest of this case is checked on the text the child returns.
                child::defer(spec, so);
                cnt("child/cases_deferred", 1);
                return;
            }
            run.eval();
            let ser_outcome: Result<Result<String, String>, String> = match &cx.pre_text {
                Some(r) => r.clone(),
                None => catch(|| serde_saphyr::to_string_with_options(&doc, ser_opts(so)).map_err(|e| e.to_string())),
            };
            let text = match ser_outcome {
                Err(p) => {
                    report(run, &format!("C14:panic:{}", panic_site(&p)), case(), p);
                    return;
                }
                Ok(Err(e)) => {
                    report(run, &format!("C14:serialize-err:{}", $label), case(), format!("to_string failed: {e}"));
                    return;
                }
                Ok(Ok(t)) => t,
            };
            let dangling_glued = c0.dangling_in_map_value > 0 && text.contains(":null\n");

            // ---- the emitted event stream: one definition per allocation, aliases elsewhere
            let ev = match analyse_events(&text) {
                Ok(ev) => ev,
                Err(why) => {
                    let sig = if dangling_glued {
                        "C14:dangling-weak:map-value-emitted-without-space".to_string()
                    } else {
                        format!("C14:emit:unparsable:{}", $label)
                    };
                    report(run, &sig, case(), format!("emitted text rejected by the raw parser ({why}):\n{text}"));
                    return;
                }
            };
            let mut emit_ok = true;
            if ev.docs != 1 {
                emit_ok = false;
                report(run, "C14:emit:not-one-document", case(), format!("{} documents emitted:\n{text}", ev.docs));
            } else if ev.defs != c0.classes() {
                emit_ok = false;
                let sig = if dangling_glued {
                    "C14:dangling-weak:map-value-emitted-without-space".to_string()
                } else {
                    format!("C14:emit:definitions-ne-allocations:{}", $label)
                };
                report(run, 
                    &sig,
                    case(),
                    format!("{} anchor definitions for {} allocations reached through wrappers:\n{text}", ev.defs, c0.classes()),
                );
            } else if ev.aliases != c0.live_refs() - c0.classes() {
                emit_ok = false;
                report(run, 
                    &format!("C14:emit:aliases-ne-repeated-references:{}", $label),
                    case(),
                    format!("{} aliases for {} repeated references:\n{text}", ev.aliases, c0.live_refs() - c0.classes()),
                );
            } else if c0.weak_before_strong == 0 && ev.seq != c0.refs {
                emit_ok = false;
                report(run, 
                    &format!("C14:emit:reference-sequence:{}", $label),
                    case(),
                    format!("definition/alias sequence {:?} differs from reference sequence {:?}:\n{text}", ev.seq, c0.refs),
                );
            }
            if !emit_ok {
                return;
            }
            cnt("events/anchor_definitions", ev.defs as u64);
            cnt("events/aliases", ev.aliases as u64);
            mx("max/events/max_expanded", ev.expanded);
            if ev.cyclic != (c0.back_edges > 0) && c0.weak_before_strong == 0 {
                run.inconclusive("model: cyclic alias in text disagrees with back edges of the original");
                return;
            }
            if ev.expanded > MAX_EXPANDED_EVENTS {
                cnt("skipped/expansion-too-large", 1);
                return;
            }

            // ---- read back into the wrapper types
            run.eval();
            let pumps = Rc::new(Pumps::default());
            let p2 = pumps.clone();
            let r = vcore::hooks::monitored(
                move |e| {
                    use serde_saphyr::verif::{Source, VerifEvent};
                    match e {
                        VerifEvent::Pump { source: Source::Parser, .. } => p2.parser.set(p2.parser.get() + 1),
                        VerifEvent::Pump { source: Source::Replay, .. } => p2.replay.set(p2.replay.get() + 1),
                        VerifEvent::Pump { source: Source::Synth, .. } => p2.synth.set(p2.synth.get() + 1),
                        VerifEvent::AliasPush { .. } => p2.alias_push.set(p2.alias_push.get() + 1),
                        _ => {}
                    }
                },
                || catch(|| serde_saphyr::from_str_with_options::<fam::$m::Doc>(&text, read_opts())),
            );
            cnt("hook/pumps_parser", pumps.parser.get());
            cnt("hook/pumps_replay", pumps.replay.get());
            cnt("hook/pumps_synth_placeholder", pumps.synth.get());
            cnt("hook/alias_pushes", pumps.alias_push.get());
            let mut verdict_ok = true;
            match r {
                Err(p) => {
                    report(run, &format!("C14:panic:{}", panic_site(&p)), case(), p);
                    return;
                }
                Ok(Err(e)) => {
                    let msg = e.to_string();
                    let kind = vcore::errs::kind(&e);
                    if !unspecified.is_empty() {
                        for u in &unspecified {
                            cnt(unspecified_key(u, false), 1);
                        }
                        run.observe("unspecified_error_kinds", &kind);
                        verdict_ok = false;
                    } else {
                        let sig = if dangling_glued {
                            "C14:dangling-weak:map-value-emitted-without-space".to_string()
                        } else if c0.weak_dangling > 0 && kind == "Message" && msg.contains("weak") && error_points_at_null(&e, &text) {
                            // the `null` written for a dropped target is refused by the weak wrapper
                            format!("C14:dangling-weak:null-rejected:{}", $weakname)
                        } else {
                            format!("C14:roundtrip-err:{}:{}", $label, kind)
                        };
                        report(run, &sig, case(), format!("from_str failed: {msg}\ntext:\n{text}"));
                        return;
                    }
                }
                Ok(Ok(d2)) => {
                    let c1 = match catch(|| fam::$m::canon(&d2)) {
                        Ok(c) => c,
                        Err(p) => {
                            report(run, 
                                &format!("C14:readback-graph-unwalkable:{}", $label),
                                case(),
                                format!("walking the deserialised graph panicked: {p}\ntext:\n{text}"),
                            );
                            return;
                        }
                    };
                    if c1.out != c0.out {
                        let what = if c1.uninit > 0 {
                            "uninitialised-placeholder"
                        } else if c1.shape != c0.shape {
                            "tree-shape"
                        } else {
                            "pointer-identity"
                        };
                        let sig = if dangling_glued {
                            "C14:dangling-weak:map-value-emitted-without-space".to_string()
                        } else if optional_weak_became_none(&c0.out, &c1.out) {
                            if $rec {
                                // only an alias to a node that is still being read is delivered as a
                                // placeholder; an alias to a completed node replays the node itself
                                "C14:recursion:optional-back-edge-to-open-ancestor-read-as-none".to_string()
                            } else {
                                format!("C14:optional-weak-read-as-none:{}", $weakname)
                            }
                        } else if let Some(u) = unspecified.first() {
                            format!("C14:{u}:silently-different:{what}")
                        } else {
                            format!("C14:roundtrip-mismatch:{}:{what}", $label)
                        };
                        report(run, &sig, case(), format!("{}\ntext:\n{text}", first_diff(&c0.out, &c1.out)));
                        return;
                    }
                    for u in &unspecified {
                        cnt(unspecified_key(u, true), 1);
                    }
                    cnt("roundtrip_ok", 1);
                }
            }

            // ---- mirror type with plain fields: equal values, independent copies
            if !has_cycle && !ev.cyclic {
                run.eval();
                let expected = match catch(|| fam::plain::expand(spec)) {
                    Ok(x) => x,
                    Err(p) => {
                        run.inconclusive(&format!("harness: plain expansion panicked at {}", panic_site(&p)));
                        return;
                    }
                };
                match catch(|| serde_saphyr::from_str_with_options::<fam::plain::Doc>(&text, read_opts())) {
                    Err(p) => {
                        report(run, &format!("C14:panic:{}", panic_site(&p)), case(), p);
                        return;
                    }
                    Ok(Err(e)) => {
                        let sig = if dangling_glued {
                            "C14:dangling-weak:map-value-emitted-without-space".to_string()
                        } else {
                            format!("C14:mirror-err:{}:{}", $label, vcore::errs::kind(&e))
                        };
                        report(run, &sig, case(), format!("plain mirror type failed: {e}\ntext:\n{text}"));
                        return;
                    }
                    Ok(Ok(got)) => {
                        if got != expected {
                            let sig = if dangling_glued {
                                "C14:dangling-weak:map-value-emitted-without-space".to_string()
                            } else {
                                format!("C14:mirror-mismatch:{}", $label)
                            };
                            let (a, b) = (fam::plain::canon(&expected), fam::plain::canon(&got));
                            report(run, 
                                &sig,
                                case(),
                                format!("plain mirror differs from the expansion: {}\ntext:\n{text}", first_diff(&a.shape, &b.shape)),
                            );
                            return;
                        }
                        cnt("mirror_ok", 1);
                    }
                }
            } else {
                cnt("mirror_skipped_cyclic", 1);
            }

            // ---- the same document without the anchors nobody refers to (what a person would write):
            // same graph. Default anchor names only (the k-th definition in the text is `&a<k>`).
            if unspecified.is_empty() && default_anchor_names(so) && !ev.unreferenced.is_empty() {
                // the known way this goes wrong: a wrapper node without an anchor inside a wrapper node
                // that keeps its anchor is given the enclosing node's anchor id
                let nested_unanchored = ev
                    .enclosing
                    .iter()
                    .any(|(l, encl)| ev.unreferenced.contains(l) && encl.iter().any(|k| !ev.unreferenced.contains(k)));
                match strip_unreferenced(&text, &ev) {
                    None => run.inconclusive("generator: removing unreferenced anchors did not give the intended event stream"),
                    Some(stripped) => {
                        run.eval();
                        match catch(|| serde_saphyr::from_str_with_options::<fam::$m::Doc>(&stripped, read_opts())) {
                            Err(p) => {
                                report(run, &format!("C14:panic:{}", panic_site(&p)), case(), p);
                                return;
                            }
                            Ok(Err(e)) => {
                                let sig = if nested_unanchored {
                                    "C14:unanchored-wrapper-nested-in-anchored-wrapper".to_string()
                                } else {
                                    format!("C14:unreferenced-anchors-removed:{}:err:{}", $label, vcore::errs::kind(&e))
                                };
                                report(run, 
                                    &sig,
                                    case(),
                                    format!("the document without its {} unreferenced anchors fails: {e}\ntext:\n{stripped}", ev.unreferenced.len()),
                                );
                                return;
                            }
                            Ok(Ok(d3)) => match catch(|| fam::$m::canon(&d3)) {
                                Err(p) => {
                                    report(run, 
                                        &format!("C14:readback-graph-unwalkable:{}", $label),
                                        case(),
                                        format!("walking the graph read from the stripped text panicked: {p}\ntext:\n{stripped}"),
                                    );
                                    return;
                                }
                                Ok(c3) => {
                                    if c3.out != c0.out {
                                        let what = if c3.shape != c0.shape { "tree-shape" } else { "pointer-identity" };
                                        let sig = if nested_unanchored {
                                            "C14:unanchored-wrapper-nested-in-anchored-wrapper".to_string()
                                        } else {
                                            format!("C14:unreferenced-anchors-removed:{}:{what}", $label)
                                        };
                                        report(run, 
                                            &sig,
                                            case(),
                                            format!(
                                                "the document without its {} unreferenced anchors reads back differently: {}\ntext:\n{stripped}",
                                                ev.unreferenced.len(),
                                                first_diff(&c0.out, &c3.out)
                                            ),
                                        );
                                        return;
                                    }
                                    cnt("stripped_roundtrip_ok", 1);
                                    cnt("stripped/anchors_removed", ev.unreferenced.len() as u64);
                                }
                            },
                        }
                    }
                }
            }

            // ---- the other entry points must rebuild the same graph: reader, slice, multi-document
            // (one of them per case, chosen by a hash of the canonical form)
            if verdict_ok && unspecified.is_empty() {
                let which = vcore::rng::fnv(c0.out.as_bytes()) % 4;
                let opts = read_opts;
                let (name, docs): (&'static str, Result<Result<Vec<fam::$m::Doc>, serde_saphyr::Error>, String>) = match which {
                    0 => ("from_reader", catch(|| serde_saphyr::from_reader_with_options::<_, fam::$m::Doc>(text.as_bytes(), opts()).map(|d| vec![d]))),
                    1 => ("from_slice", catch(|| serde_saphyr::from_slice_with_options::<fam::$m::Doc>(text.as_bytes(), opts()).map(|d| vec![d]))),
                    2 => ("from_multiple", catch(|| serde_saphyr::from_multiple_with_options::<fam::$m::Doc>(&text, opts()))),
                    _ => {
                        // the same document twice in one stream: same graph twice, nothing shared between them
                        let two = if text.starts_with('%') { format!("{text}...\n{text}") } else { format!("{text}---\n{text}") };
                        match analyse_stream_docs(&two) {
                            Some(2) => ("from_multiple_x2", catch(|| serde_saphyr::from_multiple_with_options::<fam::$m::Doc>(&two, opts()))),
                            _ => {
                                run.inconclusive("generator: doubled document is not a two-document stream for the raw parser");
                                ("skip", Ok(Ok(Vec::new())))
                            }
                        }
                    }
                };
                if name != "skip" {
                    run.eval();
                    let want = if name == "from_multiple_x2" { 2 } else { 1 };
                    match docs {
                        Err(p) => {
                            report(run, &format!("C14:panic:{}", panic_site(&p)), case(), p);
                            return;
                        }
                        Ok(Err(e)) => {
                            report(
                                run,
                                &format!("C14:entry-point:{name}:err:{}:{}", $label, vcore::errs::kind(&e)),
                                case(),
                                format!("{name} fails on the text from_str accepts: {e}\ntext:\n{text}"),
                            );
                            return;
                        }
                        Ok(Ok(ds)) => {
                            if ds.len() != want {
                                report(
                                    run,
                                    &format!("C14:entry-point:{name}:document-count:{}", $label),
                                    case(),
                                    format!("{name} returned {} documents, expected {want}\ntext:\n{text}", ds.len()),
                                );
                                return;
                            }
                            let mut seen: std::collections::HashSet<usize> = std::collections::HashSet::new();
                            for d in &ds {
                                let cd = match catch(|| fam::$m::canon(d)) {
                                    Ok(c) => c,
                                    Err(p) => {
                                        report(run, &format!("C14:readback-graph-unwalkable:{}", $label), case(), format!("{name}: {p}"));
                                        return;
                                    }
                                };
                                if cd.out != c0.out {
                                    let what = if cd.shape != c0.shape { "tree-shape" } else { "pointer-identity" };
                                    report(
                                        run,
                                        &format!("C14:entry-point:{name}:mismatch:{}:{what}", $label),
                                        case(),
                                        format!("{name} rebuilds a different graph: {}\ntext:\n{text}", first_diff(&c0.out, &cd.out)),
                                    );
                                    return;
                                }
                                let addrs = cd.addresses();
                                if addrs.iter().any(|a| seen.contains(a)) {
                                    report(
                                        run,
                                        &format!("C14:entry-point:{name}:allocation-shared-between-documents:{}", $label),
                                        case(),
                                        format!("two documents of one stream point to the same allocation\ntext:\n{text}"),
                                    );
                                    return;
                                }
                                seen.extend(addrs);
                            }
                            cnt(
                                match name {
                                    "from_reader" => "entry/from_reader_ok",
                                    "from_slice" => "entry/from_slice_ok",
                                    "from_multiple" => "entry/from_multiple_ok",
                                    _ => "entry/from_multiple_two_documents_ok",
                                },
                                1,
                            );
                        }
                    }
                }
            }

            // ---- evidence
            cnt(concat!("cases/", $label), 1);
            if verdict_ok && c0.nontrivial() {
                let sj = serde_json::to_string(spec).unwrap_or_default();
                run.nontrivial(fnv_parts(&[sj.as_bytes(), $label.as_bytes(), &[so as u8]]));
            }
            cnt("graph/allocations", c0.classes() as u64);
            cnt("graph/classes_with_2+_members", c0.shared_classes() as u64);
            cnt("graph/classes_with_2+_strong_members", c0.strong_shared_classes() as u64);
            cnt("graph/weak_live", c0.weak_live() as u64);
            cnt("graph/weak_dangling", c0.weak_dangling as u64);
            cnt("graph/cycle_back_edges", c0.back_edges as u64);
            if c0.back_edges > 0 {
                cnt("graph/cases_with_cycle", 1);
            }
            mx("max/graph/max_allocations", c0.classes() as u64);
            mx("max/graph/max_class_size", c0.per_label.iter().map(|(s, w)| (s + w) as u64).max().unwrap_or(0));
        }
    };
}

family_check!(check_rc, rc, "rc", false, "RcWeakAnchor");
family_check!(check_arc, arc, "arc", false, "ArcWeakAnchor");
family_check!(check_rcrec, rcrec, "rcrec", true, "RcRecursion");
family_check!(check_arcrec, arcrec, "arcrec", true, "ArcRecursion");

pub const FAMILIES: &[&str] = &["rc", "arc", "rcrec", "arcrec"];

fn is_rec(f: &str) -> bool {
    f.ends_with("rec")
}

fn check_case(run: &Run, family: &str, spec: &Spec, so: usize) {
    check_case_with(run, family, spec, so, None)
}

fn check_case_with(run: &Run, family: &str, spec: &Spec, so: usize, pre_text: Option<Result<Result<String, String>, String>>) {
    let cx = CaseCtx { run, spec, so, pre_text };
    match family {
        "rc" => check_rc(&cx),
        "arc" => check_arc(&cx),
        "rcrec" => check_rcrec(&cx),
        _ => check_arcrec(&cx),
    }
}

#[allow(dead_code)]
fn unused(_: &Canon) {}

fn main() {
    if std::env::args().nth(1).as_deref() == Some("child-ser") {
        child::child_main();
    }
    let run = Run::from_args("C14");
    guard::configure(run.seed, run.tier == Tier::Thorough);
    if let Some(rep) = run.is_replay() {
        let case = rep["case"].clone();
        match case["suite"].as_str() {
            Some("payload") => {
                let f = payload::Filter {
                    kind: case["kind"].as_str().unwrap_or("").to_string(),
                    ctx: case["ctx"].as_str().unwrap_or("").to_string(),
                    family: case["family"].as_str().unwrap_or("").to_string(),
                };
                payload::run_suite(&run, Some(&f));
            }
            _ => {
                let spec: Spec = match serde_json::from_value(case["spec"].clone()) {
                    Ok(s) => s,
                    Err(e) => {
                        eprintln!("harness error: replay file has no usable spec: {e}");
                        std::process::exit(2);
                    }
                };
                let fam = case["family"].as_str().unwrap_or("rc").to_string();
                let so = case["ser_opts"].as_u64().unwrap_or(0) as usize;
                check_case(&run, &fam, &spec, so);
                child::run_deferred(&run);
            }
        }
        run.finish(Finish::new("replay"));
    }
    let tier = run.tier;
    // debugging aid: VERIF_C14_PARTS=payload,exh,nest,random restricts the run to some parts
    let parts = std::env::var("VERIF_C14_PARTS").unwrap_or_else(|_| "payload,exh,nest,random".into());
    let part = |p: &str| parts.split(',').any(|x| x == p);

    // ---- payload kinds x contexts (fixed finite list)
    if part("payload") {
        payload::run_suite(&run, None);
    }

    // ---- exhaustive small graphs: (nodes, weak edges, link alphabet, root orders, families)
    // families: None = each graph in all four families; Some(()) = family assigned round-robin by index
    struct Exh {
        n: usize,
        weak_edges: usize,
        alphabet: usize,
        root_orders: usize,
        round_robin: bool,
        so: usize,
    }
    let e = |n, weak_edges, alphabet, root_orders, round_robin, so| Exh { n, weak_edges, alphabet, root_orders, round_robin, so };
    let full = spec::PAIR_OPTIONS;
    let mut exh: Vec<Exh> = vec![
        e(1, 1, full, 2, false, 0),
        e(2, 1, full, 2, false, 0),
        e(3, 1, full, 2, false, 0),
        e(4, 0, full, tier.pick(1, 2), false, 0),
        e(1, 2, full, 2, false, 0),
        e(2, 2, full, 2, false, 0),
    ];
    if tier == Tier::Thorough {
        exh.push(e(4, 1, spec::PAIR_OPTIONS_SMALL, 2, false, 0));
        exh.push(e(3, 2, full, 2, false, 0));
        exh.push(e(4, 1, full, 1, true, 0));
    }
    // serializer option vectors crossed with the small graphs
    for so in 1..N_SER_OPTS {
        exh.push(e(2, 1, full, 2, false, so));
        if tier == Tier::Thorough {
            exh.push(e(3, 1, full, 2, false, so));
        }
    }
    let mut scope_exh: Vec<String> = Vec::new();
    for x in &exh {
        if !part("exh") {
            break;
        }
        let size = spec::exhaustive_size(x.n, x.weak_edges, x.alphabet, x.root_orders);
        let fams: &[&str] = if x.round_robin { &["round-robin"] } else { FAMILIES };
        for f in fams {
            par_range(size, |idx| {
                let fam = if x.round_robin { FAMILIES[idx % 4] } else { *f };
                match spec::exhaustive_spec(x.n, x.weak_edges, x.alphabet, x.root_orders, is_rec(fam), idx) {
                    None => {}
                    Some(s) => {
                        check_case(&run, fam, &s, x.so);
                        if idx % 50_021 == 7 {
                            run.sample(|| json!({"family": fam, "ser_opts": x.so, "spec": s}));
                        }
                    }
                }
            });
        }
        if x.so == 0 {
            run.count(
                &format!("exhaustive/index_space_n{}_weak{}_alphabet{}_roots{}{}", x.n, x.weak_edges, x.alphabet, x.root_orders, if x.round_robin { "_family-round-robin" } else { "" }),
                (size * fams.len()) as u64,
            );
            scope_exh.push(format!(
                "n={} with {} weak edge(s), {}-way links, {} root order(s), {}",
                x.n,
                if x.weak_edges == 0 { "no".to_string() } else { format!("<= {}", x.weak_edges) },
                x.alphabet,
                x.root_orders,
                if x.round_robin { "family = index mod 4" } else { "all 4 families" }
            ));
        } else {
            run.count("exhaustive/index_space_option_vectors", (size * fams.len()) as u64);
        }
    }

    // ---- shared nodes nested inside shared nodes (depth 3 and 4), referenced again while the outer
    // definitions are open and after they are closed, through sequences, maps and nested structs
    struct Nest {
        depth: usize,
        slots: usize,
        round_robin: bool,
        so: usize,
    }
    let mut nests: Vec<Nest> = Vec::new();
    nests.push(Nest { depth: 3, slots: tier.pick(3, 6), round_robin: false, so: 0 });
    if tier == Tier::Thorough {
        nests.push(Nest { depth: 4, slots: 2, round_robin: true, so: 0 });
    }
    for so in 1..N_SER_OPTS {
        nests.push(Nest { depth: 3, slots: tier.pick(1, 2), round_robin: false, so });
    }
    let mut scope_nest: Vec<String> = Vec::new();
    for x in &nests {
        if !part("nest") {
            break;
        }
        let size = spec::nest_size(x.depth, x.slots);
        let fams: &[&str] = if x.round_robin { &["round-robin"] } else { FAMILIES };
        for f in fams {
            par_range(size, |idx| {
                let fam = if x.round_robin { FAMILIES[idx % 4] } else { *f };
                if let Some(s) = spec::nest_spec(x.depth, x.slots, idx) {
                    cnt("nest/cases", 1);
                    check_case(&run, fam, &s, x.so);
                    if idx % 20_011 == 3 {
                        run.sample(|| json!({"family": fam, "ser_opts": x.so, "spec": s}));
                    }
                }
            });
        }
        if x.so == 0 {
            run.count(&format!("nest/index_space_depth{}_slots{}", x.depth, x.slots), (size * fams.len()) as u64);
            scope_nest.push(format!(
                "depth {} with {} link slot kind(s), {}",
                x.depth,
                x.slots,
                if x.round_robin { "family = index mod 4" } else { "all 4 families" }
            ));
        } else {
            run.count("nest/index_space_option_vectors", (size * fams.len()) as u64);
        }
    }

    // ---- seeded random graphs, sharing probability swept 0..1
    let n_random = if part("random") {
        std::env::var("VERIF_C14_RANDOM_N").ok().and_then(|v| v.parse().ok()).unwrap_or(tier.pick(80_000, 500_000))
    } else {
        0
    };
    par_range(n_random, |i| {
        let mut rng = Rng::stream(run.seed, i as u64);
        let fam = FAMILIES[i % 4];
        let rec = is_rec(fam);
        let share_pct = ((i / 4) % 11) * 10;
        let chain = rng.chance(1, 4);
        let p = GenParams {
            chain,
            n: if chain {
                rng.range(3, 12)
            } else if rng.chance(1, 5) {
                rng.range(1, 6)
            } else {
                rng.range(2, 40)
            },
            share_pct,
            rec,
            weak_pct: *rng.pick(&[0usize, 10, 30, 60, 100]),
            dangle_pct: if rng.chance(1, 6) { 25 } else { 0 },
            allow_early: rng.chance(1, 6),
            max_expansion: 6_000,
        };
        let s = spec::random_spec(&mut rng, &p);
        let so = if rng.chance(1, 2) { 0 } else { rng.below(N_SER_OPTS) };
        cnt(
            [
                "random/share_pct_000",
                "random/share_pct_010",
                "random/share_pct_020",
                "random/share_pct_030",
                "random/share_pct_040",
                "random/share_pct_050",
                "random/share_pct_060",
                "random/share_pct_070",
                "random/share_pct_080",
                "random/share_pct_090",
                "random/share_pct_100",
            ][share_pct / 10],
            1,
        );
        check_case(&run, fam, &s, so);
        if i % 2_003 == 5 {
            run.sample(|| json!({"family": fam, "ser_opts": so, "spec": s}));
        }
    });

    // ---- serialisations that must not run on a worker thread: executed in child processes
    child::run_deferred(&run);

    flush_counters(&run);
    for (sig, n) in SIG_HITS.lock().unwrap().iter() {
        run.count(&format!("signature_hits/{sig}"), *n);
    }
    let scope = format!(
        "(a) small graphs: every graph on n nodes in which each ordered pair i<j is linked in one of the ways of the link alphabet \
         (7-way: none | kids | one | named map | inner.list | choice::Ref | kids+named; 4-way: the first four), parentless nodes listed in Doc.roots \
         after (and, with 2 root orders, also before) node 0, plus the stated number of weak edges, each = (source node, slot wfirst | weak | up \
         where up is the Option<weak> parent pointer, target any buildable node, itself, or — not for up — dangling); index combinations that use a \
         single-value slot twice or repeat a weak edge are skipped. Enumerated: {}. (b) the same for n=2 with <= 1 weak edge{} under each of the {} \
         other serializer option vectors. (c) nested sharing (spec::nest_spec): a chain of `depth` nested nodes, each link through one of the first k \
         of (kids, named map, inner.list, one, inner.a, choice::Ref), a leaf below the innermost node and a container X written after the chain; every \
         subset of: X refers to the outermost node, Doc.roots lists it again, and for each inner node: each enclosing chain node refers to it again, X \
         refers to it, the outermost node holds a weak reference to it (depth >= 2), Doc.late holds a weak reference to it. Enumerated: {}; and depth 3 \
         with {} link slot kind(s) under each other option vector. (d) the fixed payload-kind x context list (payload.rs).",
        scope_exh.join("; "),
        if tier == Tier::Thorough { " and n=3 with <= 1 weak edge" } else { "" },
        N_SER_OPTS - 1,
        scope_nest.join("; "),
        tier.pick(1, 2),
    );
    let fin = Finish::new(
        "exhaustive small graphs and nested-sharing chains (see exhaustive_scope) + seeded random graphs (<= 40 nodes, sharing probability swept \
         0..100 %, a quarter of them pure chains of depth 3..12, 13 serializer option vectors) + payload kinds; every case is serialised, checked on \
         the raw event stream, read back through from_str, through the text without unreferenced anchors, through the plain mirror type and through \
         one of from_reader / from_slice / from_multiple / from_multiple on the document written twice. A case is non-trivial when the canonical walk \
         of the original graph found >= 1 allocation referenced >= 2 times, or >= 1 weak edge (live or dangling), or a cycle back edge, and the case \
         got a verdict; distinct by hash(spec, family, serializer option vector)",
    )
    .exhaustive(scope)
    .assume("the raw saphyr-parser event stream is the ground truth for anchors/aliases in the emitted text")
    .assume("a single allocation request >= 1 GiB while a case is being checked is reported as C14:readback-runaway-allocation (the process exits at once with the replay file written)")
    .assume("reading back: budget and alias limits off except max_total_replayed_events = 400k; graphs whose alias-free expansion (raw-parser model) exceeds 100k events are skipped, so the ceiling is unreachable for a correct expansion")
    .assume("a child process that has not exited, sleeps (state S) and shows the same utime+stime in 3 samples >= 1 s apart while producing no output is blocked for ever (deadlock); one that still burns CPU is inconclusive")
    .assume("unspecified (Err or correct topology both accepted): weak serialised before its strong target, cycles through the non-recursive weak wrappers, dangling RcRecursion/ArcRecursion")
    .min_nontrivial(if tier == Tier::Quick { 5_000 } else { 50_000 });
    run.finish(fin);
}
