#![allow(dead_code)]
//! Node types of the generated object graphs, instantiated once per pointer
//! family from one macro body so that every family has exactly the same shape:
//!
//! | module   | strong `S<T>`     | weak `W<T>`        |
//! |----------|-------------------|--------------------|
//! | `rc`     | `RcAnchor<T>`     | `RcWeakAnchor<T>`  |
//! | `arc`    | `ArcAnchor<T>`    | `ArcWeakAnchor<T>` |
//! | `rcrec`  | `RcRecursive<T>`  | `RcRecursion<T>`   |
//! | `arcrec` | `ArcRecursive<T>` | `ArcRecursion<T>`  |
//! | `plain`  | `Box<T>`          | `Option<Box<T>>`   |  (mirror type, no wrappers)
//!
//! Each module provides `build(&Spec) -> Doc` (the concrete graph for an abstract
//! spec) and `canon(&Doc) -> Canon` (canonical DFS labelling, see `Canon`).

use crate::spec::{ChoiceSpec, Spec, WT};
use serde::{Deserialize, Serialize};
use std::collections::{BTreeMap, HashMap};

#[derive(Clone, Copy, PartialEq, Eq, Debug)]
enum St {
    /// referenced through a weak pointer only so far
    WeakOnly,
    /// strong definition being walked (on the DFS stack)
    InProgress,
    Done,
}

/// Canonical form of a graph: a DFS in field declaration order (= serde's
/// serialisation order) that labels every allocation reached through a wrapper
/// by order of first reference. `out` holds the value tree interleaved with
/// `D<l>(…)` first strong visit, `R<l>` later strong visit, `W<l>` live weak,
/// `W-` dangling weak. Two graphs have equal `out` iff their value trees, their
/// partition of pointer positions by `ptr_eq`, and their weak -> class-or-dangling
/// maps are equal. `shape` is the same text without the labels (value tree only).
#[derive(Default)]
pub struct Canon {
    pub out: String,
    pub shape: String,
    st: HashMap<usize, (u32, St)>,
    next: u32,
    /// labels in order of reference (strong and live weak), = expected order of
    /// anchor definitions / aliases in the emitted text
    pub refs: Vec<u32>,
    /// per label: (strong refs, live weak refs)
    pub per_label: Vec<(u32, u32)>,
    pub weak_dangling: u32,
    /// weak reference walked before the strong definition of its target started
    pub weak_before_strong: u32,
    /// weak reference to an allocation whose definition is in progress (cycle)
    pub back_edges: u32,
    /// strong reference to an allocation whose definition is in progress (must never happen)
    pub strong_cycles: u32,
    pub uninit: u32,
    /// dangling weak in a mapping-value position (struct field of map value)
    pub dangling_in_map_value: u32,
}

impl Canon {
    /// addresses of all allocations met (to show that two documents share nothing)
    pub fn addresses(&self) -> std::collections::HashSet<usize> {
        self.st.keys().copied().collect()
    }
    pub fn classes(&self) -> usize {
        self.per_label.len()
    }
    pub fn live_refs(&self) -> usize {
        self.refs.len()
    }
    pub fn shared_classes(&self) -> usize {
        self.per_label.iter().filter(|(s, w)| s + w >= 2).count()
    }
    pub fn strong_shared_classes(&self) -> usize {
        self.per_label.iter().filter(|(s, _)| *s >= 2).count()
    }
    pub fn weak_live(&self) -> usize {
        self.per_label.iter().map(|(_, w)| *w as usize).sum()
    }
    /// live weak targets that were never reached through a strong pointer
    pub fn unresolved_weak(&self) -> usize {
        self.st.values().filter(|(_, s)| *s == St::WeakOnly).count()
    }
    pub fn nontrivial(&self) -> bool {
        self.shared_classes() > 0 || self.weak_live() > 0 || self.weak_dangling > 0 || self.back_edges > 0
    }
    fn both(&mut self, s: &str) {
        self.out.push_str(s);
        self.shape.push_str(s);
    }
    pub fn tok(&mut self, s: &str) {
        self.both(s);
        self.both(" ");
    }
    pub fn text(&mut self, s: &str) {
        let q = format!("{s:?} ");
        self.both(&q);
    }
    fn label_for(&mut self, p: usize, initial: St) -> (u32, Option<St>) {
        if let Some((l, s)) = self.st.get(&p) {
            return (*l, Some(*s));
        }
        let l = self.next;
        self.next += 1;
        self.st.insert(p, (l, initial));
        self.per_label.push((0, 0));
        (l, None)
    }
    /// Strong reference to allocation `p`; returns true when the contents must be walked now.
    pub fn strong(&mut self, p: usize) -> bool {
        let (l, prev) = self.label_for(p, St::InProgress);
        self.refs.push(l);
        self.per_label[l as usize].0 += 1;
        match prev {
            None | Some(St::WeakOnly) => {
                self.st.insert(p, (l, St::InProgress));
                self.out.push_str(&format!("D{l}( "));
                self.shape.push_str("D( ");
                true
            }
            Some(St::InProgress) => {
                self.strong_cycles += 1;
                self.out.push_str(&format!("R{l} "));
                self.shape.push_str("R ");
                false
            }
            Some(St::Done) => {
                self.out.push_str(&format!("R{l} "));
                self.shape.push_str("R ");
                false
            }
        }
    }
    pub fn strong_done(&mut self, p: usize) {
        if let Some(e) = self.st.get_mut(&p) {
            e.1 = St::Done;
        }
        self.both(") ");
    }
    pub fn weak(&mut self, target: Option<usize>, in_map_value: bool) {
        match target {
            None => {
                self.weak_dangling += 1;
                if in_map_value {
                    self.dangling_in_map_value += 1;
                }
                self.both("W- ");
            }
            Some(p) => {
                let (l, prev) = self.label_for(p, St::WeakOnly);
                self.refs.push(l);
                self.per_label[l as usize].1 += 1;
                match prev {
                    None | Some(St::WeakOnly) => self.weak_before_strong += 1,
                    Some(St::InProgress) => self.back_edges += 1,
                    Some(St::Done) => {}
                }
                self.out.push_str(&format!("W{l} "));
                self.shape.push_str("W ");
            }
        }
    }
}

macro_rules! family_body {
    () => {
        #[derive(Serialize, Deserialize, Clone, Debug, PartialEq)]
        pub struct Node {
            pub id: u32,
            pub name: String,
            pub up: Option<W<Node>>,
            pub wfirst: Vec<W<Node>>,
            pub one: Option<S<Node>>,
            pub kids: Vec<S<Node>>,
            pub named: BTreeMap<String, S<Node>>,
            pub inner: Inner,
            pub choice: Choice,
            pub leaf: Vec<S<String>>,
            pub weak: Vec<W<Node>>,
            pub wmap: BTreeMap<String, W<Node>>,
        }

        #[derive(Serialize, Deserialize, Clone, Debug, PartialEq)]
        pub struct Inner {
            pub flag: bool,
            pub a: Option<S<Node>>,
            pub list: Vec<S<Node>>,
            pub w: Vec<W<Node>>,
        }

        #[derive(Serialize, Deserialize, Clone, Debug, PartialEq)]
        pub enum Choice {
            Nil,
            Num(i32),
            Ref(S<Node>),
            Pair { l: S<Node>, r: S<Node> },
        }

        #[derive(Serialize, Deserialize, Clone, Debug, PartialEq)]
        pub struct Doc {
            pub title: String,
            pub early: Vec<W<Node>>,
            pub roots: Vec<S<Node>>,
            pub table: BTreeMap<String, S<Node>>,
            pub late: Vec<W<Node>>,
            pub lr: Vec<LR<String>>,
            pub la: Vec<LA<String>>,
        }

        fn empty_node() -> Node {
            Node {
                id: u32::MAX,
                name: "dropped".into(),
                up: None,
                wfirst: vec![],
                one: None,
                kids: vec![],
                named: BTreeMap::new(),
                inner: Inner { flag: false, a: None, list: vec![], w: vec![] },
                choice: Choice::Nil,
                leaf: vec![],
                weak: vec![],
                wmap: BTreeMap::new(),
            }
        }

        /// Concrete graph for `spec`. Strong edges always go from a lower to a higher node
        /// index, so nodes are built from the highest index down. In the non-recursive
        /// families weak edges go to higher indices (already built) or to the node
        /// itself (`new_cyclic`); in the recursive families all weak slots are filled in a
        /// second pass through the interior mutability of the wrapper, which is what
        /// makes cycles possible.
        pub fn build(spec: &Spec) -> Doc {
            let n = spec.nodes.len();
            let leaves: Vec<S<String>> = spec.leaves.iter().map(|s| s_new(s.clone())).collect();
            let mut built: Vec<Option<S<Node>>> = (0..n).map(|_| None).collect();
            for i in (0..n).rev() {
                let ns = &spec.nodes[i];
                let get = |j: usize| -> S<Node> { s_share(built[j].as_ref().expect("strong edge to higher index")) };
                let wk = |t: &WT, me: Option<&W<Node>>| -> W<Node> {
                    match t {
                        WT::Dangling => w_dangling(empty_node()),
                        WT::Live(j) => w_of(built[*j].as_ref().expect("weak edge to higher index")),
                        WT::SelfRef => w_clone(me.expect("self weak needs new_cyclic")),
                    }
                };
                let mk = |me: Option<&W<Node>>| -> Node {
                    let defer = REC;
                    Node {
                        id: i as u32,
                        name: ns.name.clone(),
                        up: if defer { None } else { ns.up.as_ref().map(|t| wk(t, me)) },
                        wfirst: if defer { vec![] } else { ns.wfirst.iter().map(|t| wk(t, me)).collect() },
                        one: ns.one.map(&get),
                        kids: ns.kids.iter().map(|j| get(*j)).collect(),
                        named: ns.named.iter().map(|(k, j)| (k.clone(), get(*j))).collect(),
                        inner: Inner {
                            flag: ns.inner_flag,
                            a: ns.inner_a.map(&get),
                            list: ns.inner_list.iter().map(|j| get(*j)).collect(),
                            w: if defer { vec![] } else { ns.inner_w.iter().map(|t| wk(t, me)).collect() },
                        },
                        choice: match &ns.choice {
                            ChoiceSpec::Nil => Choice::Nil,
                            ChoiceSpec::Num(v) => Choice::Num(*v),
                            ChoiceSpec::Ref(j) => Choice::Ref(get(*j)),
                            ChoiceSpec::Pair(a, b) => Choice::Pair { l: get(*a), r: get(*b) },
                        },
                        leaf: ns.leaf.iter().map(|k| s_share(&leaves[*k])).collect(),
                        weak: if defer { vec![] } else { ns.weak.iter().map(|t| wk(t, me)).collect() },
                        wmap: if defer { BTreeMap::new() } else { ns.wmap.iter().map(|(k, t)| (k.clone(), wk(t, me))).collect() },
                    }
                };
                let s = if !REC && ns.has_self_weak() { s_new_cyclic(|me| mk(Some(me))) } else { s_new(mk(None)) };
                built[i] = Some(s);
            }
            if REC {
                for i in 0..n {
                    let ns = &spec.nodes[i];
                    let wk = |t: &WT| -> W<Node> {
                        match t {
                            WT::Dangling => w_dangling(empty_node()),
                            WT::Live(j) => w_of(built[*j].as_ref().unwrap()),
                            WT::SelfRef => w_of(built[i].as_ref().unwrap()),
                        }
                    };
                    let up: Option<W<Node>> = ns.up.as_ref().map(&wk);
                    let wfirst: Vec<W<Node>> = ns.wfirst.iter().map(&wk).collect();
                    let inner_w: Vec<W<Node>> = ns.inner_w.iter().map(&wk).collect();
                    let weak: Vec<W<Node>> = ns.weak.iter().map(&wk).collect();
                    let wmap: BTreeMap<String, W<Node>> = ns.wmap.iter().map(|(k, t)| (k.clone(), wk(t))).collect();
                    s_mutate(built[i].as_ref().unwrap(), move |node: &mut Node| {
                        node.up = up;
                        node.wfirst = wfirst;
                        node.inner.w = inner_w;
                        node.weak = weak;
                        node.wmap = wmap;
                    });
                }
            }
            let wk = |t: &WT| -> W<Node> {
                match t {
                    WT::Live(j) => w_of(built[*j].as_ref().unwrap()),
                    _ => w_dangling(empty_node()),
                }
            };
            let lr_pool: Vec<LR<String>> = spec.lr_pool.iter().map(|s| lr_new(s.clone())).collect();
            let la_pool: Vec<LA<String>> = spec.la_pool.iter().map(|s| la_new(s.clone())).collect();
            Doc {
                title: spec.title.clone(),
                early: spec.early.iter().map(&wk).collect(),
                roots: spec.roots.iter().map(|j| s_share(built[*j].as_ref().unwrap())).collect(),
                table: spec.table.iter().map(|(k, j)| (k.clone(), s_share(built[*j].as_ref().unwrap()))).collect(),
                late: spec.late.iter().map(&wk).collect(),
                lr: spec.lr.iter().map(|k| lr_share(&lr_pool[*k])).collect(),
                la: spec.la.iter().map(|k| la_share(&la_pool[*k])).collect(),
            }
            // `built`, the pools and all temporaries are dropped here: afterwards every
            // allocation is kept alive by the document alone.
        }

        fn walk_leaf(c: &mut Canon, p: usize, v: Option<&String>) {
            if c.strong(p) {
                match v {
                    Some(s) => c.text(s),
                    None => {
                        c.uninit += 1;
                        c.tok("UNINIT")
                    }
                }
                c.strong_done(p);
            }
        }

        fn walk_s(c: &mut Canon, s: &S<Node>) {
            let p = s_ptr(s);
            if c.strong(p) {
                s_with(s, |n| match n {
                    Some(n) => walk_node(c, n),
                    None => {
                        c.uninit += 1;
                        c.tok("UNINIT")
                    }
                });
                c.strong_done(p);
            }
        }

        fn walk_node(c: &mut Canon, n: &Node) {
            c.tok(&format!("id={}", n.id));
            c.text(&n.name);
            c.tok("up");
            match &n.up {
                None => c.tok("none"),
                Some(w) => c.weak(w_target(w), true),
            }
            c.tok("wfirst[");
            for w in &n.wfirst {
                c.weak(w_target(w), false);
            }
            c.tok("] one");
            match &n.one {
                None => c.tok("none"),
                Some(s) => walk_s(c, s),
            }
            c.tok("kids[");
            for s in &n.kids {
                walk_s(c, s);
            }
            c.tok("] named{");
            for (k, s) in &n.named {
                c.text(k);
                walk_s(c, s);
            }
            c.tok(&format!("}} inner( flag={}", n.inner.flag));
            match &n.inner.a {
                None => c.tok("none"),
                Some(s) => walk_s(c, s),
            }
            c.tok("list[");
            for s in &n.inner.list {
                walk_s(c, s);
            }
            c.tok("] w[");
            for w in &n.inner.w {
                c.weak(w_target(w), false);
            }
            c.tok("] ) choice");
            match &n.choice {
                Choice::Nil => c.tok("Nil"),
                Choice::Num(v) => c.tok(&format!("Num={v}")),
                Choice::Ref(s) => {
                    c.tok("Ref");
                    walk_s(c, s)
                }
                Choice::Pair { l, r } => {
                    c.tok("Pair");
                    walk_s(c, l);
                    walk_s(c, r)
                }
            }
            c.tok("leaf[");
            for l in &n.leaf {
                let p = s_ptr(l);
                s_with(l, |v| walk_leaf(c, p, v));
            }
            c.tok("] weak[");
            for w in &n.weak {
                c.weak(w_target(w), false);
            }
            c.tok("] wmap{");
            for (k, w) in &n.wmap {
                c.text(k);
                c.weak(w_target(w), true);
            }
            c.tok("}");
        }

        pub fn canon(d: &Doc) -> Canon {
            let mut c = Canon::default();
            c.text(&d.title);
            c.tok("early[");
            for w in &d.early {
                c.weak(w_target(w), false);
            }
            c.tok("] roots[");
            for s in &d.roots {
                walk_s(&mut c, s);
            }
            c.tok("] table{");
            for (k, s) in &d.table {
                c.text(k);
                walk_s(&mut c, s);
            }
            c.tok("} late[");
            for w in &d.late {
                c.weak(w_target(w), false);
            }
            c.tok("] lr[");
            for l in &d.lr {
                walk_leaf(&mut c, lr_ptr(l), Some(lr_get(l)));
            }
            c.tok("] la[");
            for l in &d.la {
                walk_leaf(&mut c, la_ptr(l), Some(la_get(l)));
            }
            c.tok("]");
            c
        }
    };
}

macro_rules! wrapped_leaf_ops {
    () => {
        pub type LR<T> = RcAnchor<T>;
        pub type LA<T> = ArcAnchor<T>;
        fn lr_new<T>(v: T) -> LR<T> {
            RcAnchor(Rc::new(v))
        }
        fn lr_share<T>(s: &LR<T>) -> LR<T> {
            RcAnchor(s.0.clone())
        }
        fn lr_ptr<T>(s: &LR<T>) -> usize {
            Rc::as_ptr(&s.0) as *const u8 as usize
        }
        fn lr_get<T>(s: &LR<T>) -> &T {
            &s.0
        }
        fn la_new<T>(v: T) -> LA<T> {
            ArcAnchor(Arc::new(v))
        }
        fn la_share<T>(s: &LA<T>) -> LA<T> {
            ArcAnchor(s.0.clone())
        }
        fn la_ptr<T>(s: &LA<T>) -> usize {
            Arc::as_ptr(&s.0) as *const u8 as usize
        }
        fn la_get<T>(s: &LA<T>) -> &T {
            &s.0
        }
    };
}

pub mod rc {
    use super::*;
    use serde_saphyr::{ArcAnchor, RcAnchor, RcWeakAnchor};
    use std::rc::Rc;
    use std::sync::Arc;
    pub type S<T> = RcAnchor<T>;
    pub type W<T> = RcWeakAnchor<T>;
    pub const REC: bool = false;
    fn s_new<T>(v: T) -> S<T> {
        RcAnchor(Rc::new(v))
    }
    fn s_new_cyclic<T>(f: impl FnOnce(&W<T>) -> T) -> S<T> {
        RcAnchor(Rc::new_cyclic(|w| f(&RcWeakAnchor(w.clone()))))
    }
    fn s_share<T>(s: &S<T>) -> S<T> {
        RcAnchor(s.0.clone())
    }
    fn s_ptr<T>(s: &S<T>) -> usize {
        Rc::as_ptr(&s.0) as *const u8 as usize
    }
    fn s_with<T, R>(s: &S<T>, f: impl FnOnce(Option<&T>) -> R) -> R {
        f(Some(&s.0))
    }
    fn s_mutate<T>(_s: &S<T>, _f: impl FnOnce(&mut T)) {
        unreachable!("non-recursive family is immutable")
    }
    fn w_of<T>(s: &S<T>) -> W<T> {
        RcWeakAnchor(Rc::downgrade(&s.0))
    }
    fn w_clone<T>(w: &W<T>) -> W<T> {
        RcWeakAnchor(w.0.clone())
    }
    fn w_dangling<T>(v: T) -> W<T> {
        let r = Rc::new(v);
        RcWeakAnchor(Rc::downgrade(&r))
    }
    fn w_target<T>(w: &W<T>) -> Option<usize> {
        if w.0.strong_count() > 0 { Some(w.0.as_ptr() as *const u8 as usize) } else { None }
    }
    wrapped_leaf_ops!();
    family_body!();
}

pub mod arc {
    use super::*;
    use serde_saphyr::{ArcAnchor, ArcWeakAnchor, RcAnchor};
    use std::rc::Rc;
    use std::sync::Arc;
    pub type S<T> = ArcAnchor<T>;
    pub type W<T> = ArcWeakAnchor<T>;
    pub const REC: bool = false;
    fn s_new<T>(v: T) -> S<T> {
        ArcAnchor(Arc::new(v))
    }
    fn s_new_cyclic<T>(f: impl FnOnce(&W<T>) -> T) -> S<T> {
        ArcAnchor(Arc::new_cyclic(|w| f(&ArcWeakAnchor(w.clone()))))
    }
    fn s_share<T>(s: &S<T>) -> S<T> {
        ArcAnchor(s.0.clone())
    }
    fn s_ptr<T>(s: &S<T>) -> usize {
        Arc::as_ptr(&s.0) as *const u8 as usize
    }
    fn s_with<T, R>(s: &S<T>, f: impl FnOnce(Option<&T>) -> R) -> R {
        f(Some(&s.0))
    }
    fn s_mutate<T>(_s: &S<T>, _f: impl FnOnce(&mut T)) {
        unreachable!("non-recursive family is immutable")
    }
    fn w_of<T>(s: &S<T>) -> W<T> {
        ArcWeakAnchor(Arc::downgrade(&s.0))
    }
    fn w_clone<T>(w: &W<T>) -> W<T> {
        ArcWeakAnchor(w.0.clone())
    }
    fn w_dangling<T>(v: T) -> W<T> {
        let r = Arc::new(v);
        ArcWeakAnchor(Arc::downgrade(&r))
    }
    fn w_target<T>(w: &W<T>) -> Option<usize> {
        if w.0.strong_count() > 0 { Some(w.0.as_ptr() as *const u8 as usize) } else { None }
    }
    wrapped_leaf_ops!();
    family_body!();
}

pub mod rcrec {
    use super::*;
    use serde_saphyr::{ArcAnchor, RcAnchor, RcRecursion, RcRecursive};
    use std::cell::RefCell;
    use std::rc::Rc;
    use std::sync::Arc;
    pub type S<T> = RcRecursive<T>;
    pub type W<T> = RcRecursion<T>;
    pub const REC: bool = true;
    fn s_new<T>(v: T) -> S<T> {
        RcRecursive(Rc::new(RefCell::new(Some(v))))
    }
    fn s_new_cyclic<T>(_f: impl FnOnce(&W<T>) -> T) -> S<T> {
        unreachable!("recursive family fills weak slots in a second pass")
    }
    fn s_share<T>(s: &S<T>) -> S<T> {
        RcRecursive(s.0.clone())
    }
    fn s_ptr<T>(s: &S<T>) -> usize {
        Rc::as_ptr(&s.0) as *const u8 as usize
    }
    fn s_with<T, R>(s: &S<T>, f: impl FnOnce(Option<&T>) -> R) -> R {
        let b = s.0.as_ref().borrow();
        f(b.as_ref())
    }
    fn s_mutate<T>(s: &S<T>, f: impl FnOnce(&mut T)) {
        let mut b = s.0.as_ref().borrow_mut();
        f(b.as_mut().expect("initialised"))
    }
    fn w_of<T>(s: &S<T>) -> W<T> {
        RcRecursion(Rc::downgrade(&s.0))
    }
    fn w_clone<T>(w: &W<T>) -> W<T> {
        RcRecursion(w.0.clone())
    }
    fn w_dangling<T>(v: T) -> W<T> {
        let r = Rc::new(RefCell::new(Some(v)));
        RcRecursion(Rc::downgrade(&r))
    }
    fn w_target<T>(w: &W<T>) -> Option<usize> {
        if w.0.strong_count() > 0 { Some(w.0.as_ptr() as *const u8 as usize) } else { None }
    }
    wrapped_leaf_ops!();
    family_body!();
}

pub mod arcrec {
    use super::*;
    use serde_saphyr::{ArcAnchor, ArcRecursion, ArcRecursive, RcAnchor};
    use std::rc::Rc;
    use std::sync::{Arc, Mutex};
    pub type S<T> = ArcRecursive<T>;
    pub type W<T> = ArcRecursion<T>;
    pub const REC: bool = true;
    fn s_new<T>(v: T) -> S<T> {
        ArcRecursive(Arc::new(Mutex::new(Some(v))))
    }
    fn s_new_cyclic<T>(_f: impl FnOnce(&W<T>) -> T) -> S<T> {
        unreachable!("recursive family fills weak slots in a second pass")
    }
    fn s_share<T>(s: &S<T>) -> S<T> {
        ArcRecursive(s.0.clone())
    }
    fn s_ptr<T>(s: &S<T>) -> usize {
        Arc::as_ptr(&s.0) as *const u8 as usize
    }
    fn s_with<T, R>(s: &S<T>, f: impl FnOnce(Option<&T>) -> R) -> R {
        let g = s.0.lock().expect("mutex");
        f(g.as_ref())
    }
    fn s_mutate<T>(s: &S<T>, f: impl FnOnce(&mut T)) {
        let mut g = s.0.lock().expect("mutex");
        f(g.as_mut().expect("initialised"))
    }
    fn w_of<T>(s: &S<T>) -> W<T> {
        ArcRecursion(Arc::downgrade(&s.0))
    }
    fn w_clone<T>(w: &W<T>) -> W<T> {
        ArcRecursion(w.0.clone())
    }
    fn w_dangling<T>(v: T) -> W<T> {
        let r = Arc::new(Mutex::new(Some(v)));
        ArcRecursion(Arc::downgrade(&r))
    }
    fn w_target<T>(w: &W<T>) -> Option<usize> {
        if w.0.strong_count() > 0 { Some(w.0.as_ptr() as *const u8 as usize) } else { None }
    }
    wrapped_leaf_ops!();
    family_body!();
}

/// Mirror types with plain fields: every strong wrapper becomes `Box<T>`, every
/// weak wrapper `Option<Box<T>>`. `build` gives the alias-free expansion of the
/// spec as a tree of independent copies (only for acyclic specs).
pub mod plain {
    use super::*;
    pub type S<T> = Box<T>;
    pub type W<T> = Option<Box<T>>;
    pub type LR<T> = Box<T>;
    pub type LA<T> = Box<T>;
    pub const REC: bool = false;
    fn s_new<T>(v: T) -> S<T> {
        Box::new(v)
    }
    fn s_new_cyclic<T>(_f: impl FnOnce(&W<T>) -> T) -> S<T> {
        unreachable!("a self reference has no finite plain copy")
    }
    fn s_share<T: Clone>(s: &S<T>) -> S<T> {
        s.clone()
    }
    fn s_ptr<T>(s: &S<T>) -> usize {
        &**s as *const T as *const u8 as usize
    }
    fn s_with<T, R>(s: &S<T>, f: impl FnOnce(Option<&T>) -> R) -> R {
        f(Some(&**s))
    }
    fn s_mutate<T>(_s: &S<T>, _f: impl FnOnce(&mut T)) {
        unreachable!()
    }
    fn w_of<T: Clone>(s: &S<T>) -> W<T> {
        Some(s.clone())
    }
    fn w_clone<T: Clone>(w: &W<T>) -> W<T> {
        w.clone()
    }
    fn w_dangling<T>(_v: T) -> W<T> {
        None
    }
    fn w_target<T>(w: &W<T>) -> Option<usize> {
        w.as_ref().map(|b| &**b as *const T as *const u8 as usize)
    }
    fn lr_new<T>(v: T) -> LR<T> {
        Box::new(v)
    }
    fn lr_share<T: Clone>(s: &LR<T>) -> LR<T> {
        s.clone()
    }
    fn lr_ptr<T>(s: &LR<T>) -> usize {
        &**s as *const T as *const u8 as usize
    }
    fn lr_get<T>(s: &LR<T>) -> &T {
        s
    }
    fn la_new<T>(v: T) -> LA<T> {
        Box::new(v)
    }
    fn la_share<T: Clone>(s: &LA<T>) -> LA<T> {
        s.clone()
    }
    fn la_ptr<T>(s: &LA<T>) -> usize {
        &**s as *const T as *const u8 as usize
    }
    fn la_get<T>(s: &LA<T>) -> &T {
        s
    }
    family_body!();

    /// Alias-free expansion of an acyclic spec: every reference becomes its own copy.
    pub fn expand(spec: &Spec) -> Doc {
        fn wk(spec: &Spec, t: &WT, memo: &mut Vec<Option<Node>>) -> W<Node> {
            match t {
                WT::Live(j) => Some(Box::new(node(spec, *j, memo))),
                WT::Dangling => None,
                WT::SelfRef => unreachable!("cyclic spec has no plain expansion"),
            }
        }
        fn node(spec: &Spec, i: usize, memo: &mut Vec<Option<Node>>) -> Node {
            if let Some(x) = &memo[i] {
                return x.clone();
            }
            let ns = &spec.nodes[i];
            let bx = |j: usize, memo: &mut Vec<Option<Node>>| Box::new(node(spec, j, memo));
            let n = Node {
                id: i as u32,
                name: ns.name.clone(),
                up: ns.up.as_ref().map(|t| wk(spec, t, memo)),
                wfirst: ns.wfirst.iter().map(|t| wk(spec, t, memo)).collect(),
                one: ns.one.map(|j| bx(j, memo)),
                kids: ns.kids.iter().map(|j| bx(*j, memo)).collect(),
                named: ns.named.iter().map(|(k, j)| (k.clone(), bx(*j, memo))).collect(),
                inner: Inner {
                    flag: ns.inner_flag,
                    a: ns.inner_a.map(|j| bx(j, memo)),
                    list: ns.inner_list.iter().map(|j| bx(*j, memo)).collect(),
                    w: ns.inner_w.iter().map(|t| wk(spec, t, memo)).collect(),
                },
                choice: match &ns.choice {
                    ChoiceSpec::Nil => Choice::Nil,
                    ChoiceSpec::Num(v) => Choice::Num(*v),
                    ChoiceSpec::Ref(j) => Choice::Ref(bx(*j, memo)),
                    ChoiceSpec::Pair(a, b) => Choice::Pair { l: bx(*a, memo), r: bx(*b, memo) },
                },
                leaf: ns.leaf.iter().map(|k| Box::new(spec.leaves[*k].clone())).collect(),
                weak: ns.weak.iter().map(|t| wk(spec, t, memo)).collect(),
                wmap: ns.wmap.iter().map(|(k, t)| (k.clone(), wk(spec, t, memo))).collect(),
            };
            memo[i] = Some(n.clone());
            n
        }
        let mut memo: Vec<Option<Node>> = (0..spec.nodes.len()).map(|_| None).collect();
        let m = &mut memo;
        Doc {
            title: spec.title.clone(),
            early: spec.early.iter().map(|t| wk(spec, t, m)).collect(),
            roots: spec.roots.iter().map(|j| Box::new(node(spec, *j, m))).collect(),
            table: spec.table.iter().map(|(k, j)| (k.clone(), Box::new(node(spec, *j, m)))).collect(),
            late: spec.late.iter().map(|t| wk(spec, t, m)).collect(),
            lr: spec.lr.iter().map(|k| Box::new(spec.lr_pool[*k].clone())).collect(),
            la: spec.la.iter().map(|k| Box::new(spec.la_pool[*k].clone())).collect(),
        }
    }
}
