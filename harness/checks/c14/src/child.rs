//! Serialisations that may block the calling thread for ever are executed in a
//! child process (`c14 child-ser`, specs on stdin, one result line per case on
//! stdout), so that a deadlock in `to_string` is *observed* instead of predicted
//! and cannot hang the check.
//!
//! Verdict rule (no wall clock as a verdict): the child is **deadlocked** iff it has
//! not exited, has produced no output for >= 1 s, and `/proc/<pid>/stat` shows state
//! `S` (sleeping) with the same utime+stime in 3 samples taken >= 1 s apart — a
//! thread blocked on a mutex burns no CPU, a starved or busy one is `R` or keeps
//! accumulating ticks. A child that is still running/burning CPU when the overall
//! watchdog fires is *inconclusive*. A child that exits hands back the emitted text
//! and the case continues through the ordinary oracle in the parent.

use crate::spec::Spec;
use serde_json::json;
use std::io::{BufRead, Read, Write};
use std::sync::Mutex;
use std::sync::mpsc::{RecvTimeoutError, channel};
use std::time::{Duration, Instant};
use vcore::run::Run;

pub const DEADLOCK_SIGNATURE: &str = "C14:arcrec:serialize-relocks-mutex-held-by-open-definition";
/// After this many observed deadlocks the remaining deferred cases are not run (each costs ~4 s).
const MAX_DEADLOCKS_OBSERVED: usize = 2;
const BATCH: usize = 256;
/// Watchdog for one child that keeps burning CPU without finishing: inconclusive, never a verdict.
const CHILD_WATCHDOG_S: u64 = 300;

static DEFERRED: Mutex<Vec<(Spec, usize)>> = Mutex::new(Vec::new());

pub fn defer(spec: &Spec, so: usize) {
    DEFERRED.lock().unwrap().push((spec.clone(), so));
}

/// `c14 child-ser`: read JSON lines `{"so":..,"spec":..}` from stdin, serialise the
/// arcrec graph of each, print `BEGIN i` before and `OK i <json string>` /
/// `ERR i <json string>` / `PANIC i <json string>` after each.
pub fn child_main() -> ! {
    let mut input = String::new();
    let _ = std::io::stdin().read_to_string(&mut input);
    let out = std::io::stdout();
    for (i, line) in input.lines().enumerate() {
        let Ok(v) = serde_json::from_str::<serde_json::Value>(line) else {
            continue;
        };
        let so = v["so"].as_u64().unwrap_or(0) as usize;
        let Ok(spec) = serde_json::from_value::<Spec>(v["spec"].clone()) else {
            continue;
        };
        {
            let mut o = out.lock();
            let _ = writeln!(o, "BEGIN {i}");
            let _ = o.flush();
        }
        let r = vcore::obs::catch(|| {
            let doc = crate::fam::arcrec::build(&spec);
            serde_saphyr::to_string_with_options(&doc, crate::ser_opts(so)).map_err(|e| e.to_string())
        });
        let line = match r {
            Ok(Ok(t)) => format!("OK {i} {}", serde_json::Value::String(t)),
            Ok(Err(e)) => format!("ERR {i} {}", serde_json::Value::String(e)),
            Err(p) => format!("PANIC {i} {}", serde_json::Value::String(p)),
        };
        let mut o = out.lock();
        let _ = writeln!(o, "{line}");
        let _ = o.flush();
    }
    std::process::exit(0);
}

/// (state, utime + stime in clock ticks) of a process.
fn proc_stat(pid: u32) -> Option<(char, u64)> {
    let s = std::fs::read_to_string(format!("/proc/{pid}/stat")).ok()?;
    let rest = &s[s.rfind(')')? + 1..];
    let f: Vec<&str> = rest.split_whitespace().collect();
    let state = f.first()?.chars().next()?;
    let ut: u64 = f.get(11)?.parse().ok()?;
    let st: u64 = f.get(12)?.parse().ok()?;
    Some((state, ut + st))
}

enum BatchEnd {
    Exited,
    /// index (within the batch) of the case the child was blocked in, with the observation
    Deadlock(usize, String),
    Inconclusive(String),
}

/// Run one batch in a child; `results[i]` is filled for every case the child finished.
fn run_batch(cases: &[(Spec, usize)], results: &mut [Option<Result<Result<String, String>, String>>]) -> BatchEnd {
    let exe = match std::env::current_exe() {
        Ok(e) => e,
        Err(e) => return BatchEnd::Inconclusive(format!("current_exe: {e}")),
    };
    let mut child = match std::process::Command::new(exe)
        .arg("child-ser")
        .stdin(std::process::Stdio::piped())
        .stdout(std::process::Stdio::piped())
        .stderr(std::process::Stdio::null())
        .spawn()
    {
        Ok(c) => c,
        Err(e) => return BatchEnd::Inconclusive(format!("spawn: {e}")),
    };
    let pid = child.id();
    let mut stdin = child.stdin.take().unwrap();
    let payload: String = cases.iter().map(|(s, so)| format!("{}\n", json!({"so": so, "spec": s}))).collect();
    std::thread::spawn(move || {
        let _ = stdin.write_all(payload.as_bytes());
    });
    let stdout = child.stdout.take().unwrap();
    let (tx, rx) = channel::<String>();
    std::thread::spawn(move || {
        for l in std::io::BufReader::new(stdout).lines().map_while(Result::ok) {
            if tx.send(l).is_err() {
                break;
            }
        }
    });
    let mut current: Option<usize> = None;
    let mut last_progress = Instant::now();
    let mut samples: Vec<(Instant, char, u64)> = Vec::new();
    let started = Instant::now();
    let end = loop {
        match rx.recv_timeout(Duration::from_millis(100)) {
            Ok(l) => {
                last_progress = Instant::now();
                samples.clear();
                let mut it = l.splitn(3, ' ');
                let (tag, idx, rest) = (it.next().unwrap_or(""), it.next().and_then(|x| x.parse::<usize>().ok()), it.next().unwrap_or("\"\""));
                let Some(idx) = idx else { continue };
                if idx >= results.len() {
                    continue;
                }
                let body = serde_json::from_str::<String>(rest).unwrap_or_default();
                match tag {
                    "BEGIN" => current = Some(idx),
                    "OK" => results[idx] = Some(Ok(Ok(body))),
                    "ERR" => results[idx] = Some(Ok(Err(body))),
                    "PANIC" => results[idx] = Some(Err(body)),
                    _ => {}
                }
                continue;
            }
            Err(RecvTimeoutError::Disconnected) => {
                // stdout closed: the child is exiting
                let _ = child.wait();
                break BatchEnd::Exited;
            }
            Err(RecvTimeoutError::Timeout) => {}
        }
        if let Ok(Some(_)) = child.try_wait() {
            // drain what is left
            while let Ok(l) = rx.recv_timeout(Duration::from_millis(200)) {
                let mut it = l.splitn(3, ' ');
                let (tag, idx, rest) = (it.next().unwrap_or(""), it.next().and_then(|x| x.parse::<usize>().ok()), it.next().unwrap_or("\"\""));
                if let Some(idx) = idx
                    && idx < results.len()
                {
                    let body = serde_json::from_str::<String>(rest).unwrap_or_default();
                    match tag {
                        "OK" => results[idx] = Some(Ok(Ok(body))),
                        "ERR" => results[idx] = Some(Ok(Err(body))),
                        "PANIC" => results[idx] = Some(Err(body)),
                        _ => {}
                    }
                }
            }
            break BatchEnd::Exited;
        }
        if last_progress.elapsed() >= Duration::from_secs(1) {
            let due = samples.last().is_none_or(|(t, _, _)| t.elapsed() >= Duration::from_millis(1100));
            if due && let Some((state, ticks)) = proc_stat(pid) {
                samples.push((Instant::now(), state, ticks));
                if samples.len() >= 3 {
                    let w = &samples[samples.len() - 3..];
                    let asleep = w.iter().all(|(_, st, _)| *st == 'S');
                    let frozen = w.iter().all(|(_, _, t)| *t == w[0].2);
                    if asleep && frozen && let Some(idx) = current {
                        let obs = format!(
                            "child pid {pid} has not exited and printed nothing after `BEGIN {idx}`; /proc/{pid}/stat in 3 samples >= 1.1 s apart: state {:?}, utime+stime {:?} ticks (not advancing) -> blocked for ever inside to_string",
                            w.iter().map(|(_, st, _)| *st).collect::<Vec<_>>(),
                            w.iter().map(|(_, _, t)| *t).collect::<Vec<_>>()
                        );
                        break BatchEnd::Deadlock(idx, obs);
                    }
                }
            }
        }
        if started.elapsed() >= Duration::from_secs(CHILD_WATCHDOG_S) {
            break BatchEnd::Inconclusive(format!("child still running (not asleep with frozen CPU time) after {CHILD_WATCHDOG_S} s"));
        }
    };
    if !matches!(end, BatchEnd::Exited) {
        let _ = child.kill();
        let _ = child.wait();
    }
    end
}

/// Execute every deferred serialisation in child processes and push each returned
/// text through the ordinary oracle.
pub fn run_deferred(run: &Run) {
    let cases: Vec<(Spec, usize)> = std::mem::take(&mut *DEFERRED.lock().unwrap());
    if cases.is_empty() {
        return;
    }
    let mut deadlocks = 0usize;
    let mut pos = 0usize;
    while pos < cases.len() {
        if deadlocks >= MAX_DEADLOCKS_OBSERVED {
            crate::cnt("child/cases_not_run_after_deadlocks_observed", (cases.len() - pos) as u64);
            break;
        }
        let hi = (pos + BATCH).min(cases.len());
        let batch = &cases[pos..hi];
        let mut results: Vec<Option<Result<Result<String, String>, String>>> = vec![None; batch.len()];
        crate::cnt("child/processes", 1);
        let end = run_batch(batch, &mut results);
        let mut next = hi;
        match end {
            BatchEnd::Exited => crate::cnt("child/exited_normally", 1),
            BatchEnd::Deadlock(idx, obs) => {
                deadlocks += 1;
                crate::cnt("child/deadlocks_observed", 1);
                run.eval();
                let (spec, so) = &batch[idx];
                crate::report(
                    run,
                    DEADLOCK_SIGNATURE,
                    json!({"suite": "graph", "family": "arcrec", "ser_opts": so, "spec": spec}),
                    format!(
                        "to_string_with_options never returns for this graph (a strong ArcRecursive reference is reached while the definition of its target is being written through an ArcRecursion met before the strong owner): {obs}"
                    ),
                );
                next = pos + idx + 1;
            }
            BatchEnd::Inconclusive(why) => {
                run.inconclusive(&format!("child-ser: {why}"));
                // skip the case it was busy with
                let done = results.iter().take_while(|r| r.is_some()).count();
                next = pos + done + 1;
            }
        }
        for (i, r) in results.into_iter().enumerate() {
            if pos + i >= next {
                break;
            }
            match r {
                Some(r) => {
                    crate::cnt("child/serialisations_returned", 1);
                    let (spec, so) = &batch[i];
                    crate::check_case_with(run, "arcrec", spec, *so, Some(r));
                }
                None => run.inconclusive("child-ser: child ended without a result for a case"),
            }
        }
        pos = next.min(cases.len()).max(pos + 1);
    }
}
