//! Abstract graph specifications (what a replay file stores), the seeded random
//! generator and the exhaustive enumeration of small graphs.

use serde::{Deserialize, Serialize};
use vcore::rng::Rng;

/// Target of a weak slot.
#[derive(Clone, Debug, Serialize, Deserialize, PartialEq)]
pub enum WT {
    Live(usize),
    Dangling,
    /// weak pointer to the node that holds it
    SelfRef,
}

#[derive(Clone, Debug, Serialize, Deserialize, PartialEq, Default)]
pub enum ChoiceSpec {
    #[default]
    Nil,
    Num(i32),
    Ref(usize),
    Pair(usize, usize),
}

#[derive(Clone, Debug, Serialize, Deserialize, Default)]
pub struct NodeSpec {
    pub name: String,
    /// parent-pointer style optional weak field (`Option<W<Node>>`), written right after `name`;
    /// never `Some(Dangling)` (an `Option` cannot tell that from `None`)
    #[serde(default)]
    pub up: Option<WT>,
    pub wfirst: Vec<WT>,
    pub one: Option<usize>,
    pub kids: Vec<usize>,
    pub named: Vec<(String, usize)>,
    pub inner_flag: bool,
    pub inner_a: Option<usize>,
    pub inner_list: Vec<usize>,
    pub inner_w: Vec<WT>,
    pub choice: ChoiceSpec,
    pub leaf: Vec<usize>,
    pub weak: Vec<WT>,
    pub wmap: Vec<(String, WT)>,
}

impl NodeSpec {
    pub fn weak_slots(&self) -> impl Iterator<Item = &WT> {
        self.up.iter().chain(self.wfirst.iter()).chain(self.inner_w.iter()).chain(self.weak.iter()).chain(self.wmap.iter().map(|(_, t)| t))
    }
    pub fn has_self_weak(&self) -> bool {
        self.weak_slots().any(|t| *t == WT::SelfRef)
    }
    pub fn strong_targets(&self) -> Vec<usize> {
        let mut v = Vec::new();
        v.extend(self.one);
        v.extend(self.kids.iter().copied());
        v.extend(self.named.iter().map(|(_, j)| *j));
        v.extend(self.inner_a);
        v.extend(self.inner_list.iter().copied());
        match &self.choice {
            ChoiceSpec::Ref(j) => v.push(*j),
            ChoiceSpec::Pair(a, b) => {
                v.push(*a);
                v.push(*b)
            }
            _ => {}
        }
        v
    }
}

#[derive(Clone, Debug, Serialize, Deserialize, Default)]
pub struct Spec {
    pub nodes: Vec<NodeSpec>,
    /// pool of shared scalar payloads (`S<String>`), referenced from `NodeSpec::leaf`
    pub leaves: Vec<String>,
    pub title: String,
    pub early: Vec<WT>,
    pub roots: Vec<usize>,
    pub table: Vec<(String, usize)>,
    pub late: Vec<WT>,
    pub lr_pool: Vec<String>,
    pub lr: Vec<usize>,
    pub la_pool: Vec<String>,
    pub la: Vec<usize>,
}

impl Spec {
    /// Structural validity for the builder of a family (`rec` = recursive wrappers).
    pub fn valid(&self, rec: bool) -> bool {
        let n = self.nodes.len();
        for (i, ns) in self.nodes.iter().enumerate() {
            if ns.strong_targets().iter().any(|j| *j <= i || *j >= n) {
                return false;
            }
            for t in ns.weak_slots() {
                match t {
                    WT::Live(j) if *j >= n => return false,
                    WT::Live(j) if !rec && *j <= i => return false,
                    _ => {}
                }
            }
            if ns.up == Some(WT::Dangling) {
                return false;
            }
            if ns.leaf.iter().any(|k| *k >= self.leaves.len()) {
                return false;
            }
            let mut keys: Vec<&String> = ns.named.iter().map(|(k, _)| k).collect();
            keys.sort();
            keys.dedup();
            if keys.len() != ns.named.len() {
                return false;
            }
            let mut keys: Vec<&String> = ns.wmap.iter().map(|(k, _)| k).collect();
            keys.sort();
            keys.dedup();
            if keys.len() != ns.wmap.len() {
                return false;
            }
        }
        let mut keys: Vec<&String> = self.table.iter().map(|(k, _)| k).collect();
        keys.sort();
        keys.dedup();
        if keys.len() != self.table.len() {
            return false;
        }
        let top_ok = |t: &WT| match t {
            WT::Live(j) => *j < n,
            WT::Dangling => true,
            WT::SelfRef => false,
        };
        self.roots.iter().all(|j| *j < n)
            && self.table.iter().all(|(_, j)| *j < n)
            && self.early.iter().all(top_ok)
            && self.late.iter().all(top_ok)
            && self.lr.iter().all(|k| *k < self.lr_pool.len())
            && self.la.iter().all(|k| *k < self.la_pool.len())
    }

    /// Is there a cycle over strong + live weak edges (then no finite plain copy exists)?
    pub fn has_cycle(&self) -> bool {
        let n = self.nodes.len();
        // 0 = unseen, 1 = on stack, 2 = done
        fn go(s: &Spec, i: usize, st: &mut [u8]) -> bool {
            st[i] = 1;
            let ns = &s.nodes[i];
            let mut tg = ns.strong_targets();
            for t in ns.weak_slots() {
                match t {
                    WT::Live(j) => tg.push(*j),
                    WT::SelfRef => return true,
                    WT::Dangling => {}
                }
            }
            for j in tg {
                if st[j] == 1 || (st[j] == 0 && go(s, j, st)) {
                    return true;
                }
            }
            st[i] = 2;
            false
        }
        let mut st = vec![0u8; n];
        (0..n).any(|i| st[i] == 0 && go(self, i, &mut st))
    }

    /// Strong targets of node i in the order the serialiser meets them.
    fn strong_in_order(&self, i: usize) -> Vec<usize> {
        let ns = &self.nodes[i];
        let mut v = Vec::new();
        v.extend(ns.one);
        v.extend(ns.kids.iter().copied());
        let mut named: Vec<&(String, usize)> = ns.named.iter().collect();
        named.sort();
        v.extend(named.iter().map(|(_, j)| *j));
        v.extend(ns.inner_a);
        v.extend(ns.inner_list.iter().copied());
        match &ns.choice {
            ChoiceSpec::Ref(j) => v.push(*j),
            ChoiceSpec::Pair(a, b) => {
                v.push(*a);
                v.push(*b)
            }
            _ => {}
        }
        v
    }

    /// Preorder position of every node in the serialiser's walk over strong edges
    /// (roots, then the table by key); `usize::MAX` = not strongly reachable.
    pub fn strong_preorder(&self) -> Vec<usize> {
        fn go(s: &Spec, i: usize, pos: &mut Vec<usize>, next: &mut usize) {
            if pos[i] != usize::MAX {
                return;
            }
            pos[i] = *next;
            *next += 1;
            for j in s.strong_in_order(i) {
                go(s, j, pos, next);
            }
        }
        let mut pos = vec![usize::MAX; self.nodes.len()];
        let mut next = 0;
        for j in &self.roots {
            go(self, *j, &mut pos, &mut next);
        }
        let mut table: Vec<&(String, usize)> = self.table.iter().collect();
        table.sort();
        for (_, j) in table {
            go(self, *j, &mut pos, &mut next);
        }
        pos
    }

    /// Bit set of the nodes strongly reachable from each node (n <= 64).
    pub fn strong_reach(&self) -> Vec<u64> {
        let n = self.nodes.len();
        let mut r = vec![0u64; n];
        for i in (0..n).rev() {
            let mut m = 0u64;
            for j in self.nodes[i].strong_targets() {
                if j < 64 {
                    m |= (1u64 << j) | r[j];
                }
            }
            r[i] = m;
        }
        r
    }

    /// Simulate the order in which the serialiser walks the graph (derive field order,
    /// maps by sorted key, a weak reference to a node not seen yet emits that node's
    /// definition on the spot) and report whether a *strong* reference is met while the
    /// definition of its target is still being written. With the `Arc` recursive
    /// wrappers that is the moment `ArcRecursive::serialize` locks a mutex that an outer
    /// frame of the same call already holds.
    pub fn strong_reference_to_open_definition(&self) -> bool {
        // 0 unseen, 1 open, 2 done
        struct Sim<'a> {
            s: &'a Spec,
            st: Vec<u8>,
            hit: bool,
        }
        impl Sim<'_> {
            fn strong(&mut self, j: usize) {
                match self.st[j] {
                    0 => self.define(j),
                    1 => self.hit = true,
                    _ => {}
                }
            }
            fn weak(&mut self, t: &WT, me: Option<usize>) {
                let j = match t {
                    WT::Live(j) => *j,
                    WT::SelfRef => match me {
                        Some(i) => i,
                        None => return,
                    },
                    WT::Dangling => return,
                };
                if self.st[j] == 0 {
                    self.define(j);
                }
            }
            fn define(&mut self, i: usize) {
                self.st[i] = 1;
                let ns = &self.s.nodes[i];
                if let Some(t) = &ns.up {
                    self.weak(t, Some(i));
                }
                for t in &ns.wfirst {
                    self.weak(t, Some(i));
                }
                if let Some(j) = ns.one {
                    self.strong(j);
                }
                for j in &ns.kids {
                    self.strong(*j);
                }
                let mut named: Vec<&(String, usize)> = ns.named.iter().collect();
                named.sort();
                for (_, j) in named {
                    self.strong(*j);
                }
                if let Some(j) = ns.inner_a {
                    self.strong(j);
                }
                for j in &ns.inner_list {
                    self.strong(*j);
                }
                for t in &ns.inner_w {
                    self.weak(t, Some(i));
                }
                match &ns.choice {
                    ChoiceSpec::Ref(j) => self.strong(*j),
                    ChoiceSpec::Pair(a, b) => {
                        self.strong(*a);
                        self.strong(*b)
                    }
                    _ => {}
                }
                for t in &ns.weak {
                    self.weak(t, Some(i));
                }
                let mut wmap: Vec<&(String, WT)> = ns.wmap.iter().collect();
                wmap.sort_by(|a, b| a.0.cmp(&b.0));
                for (_, t) in wmap {
                    self.weak(t, Some(i));
                }
                self.st[i] = 2;
            }
        }
        let mut sim = Sim { s: self, st: vec![0; self.nodes.len()], hit: false };
        for t in &self.early {
            sim.weak(t, None);
        }
        for j in &self.roots {
            sim.strong(*j);
        }
        let mut table: Vec<&(String, usize)> = self.table.iter().collect();
        table.sort();
        for (_, j) in table {
            sim.strong(*j);
        }
        for t in &self.late {
            sim.weak(t, None);
        }
        sim.hit
    }

    /// Upper estimate of the number of events the alias-free expansion of the
    /// emitted document has (every reference to an already defined node replays it).
    /// Weak edges that cannot be resolved this way (to a lower index) count as 1.
    pub fn expansion_estimate(&self) -> u64 {
        let n = self.nodes.len();
        // pass 0: weak edges to a lower or equal index count 1; pass 1: they count what pass 0 found
        // for their target (in the recursive families such an edge replays the target unless the
        // target is still open)
        let mut prev = vec![1u64; n];
        let mut exp = vec![0u64; n];
        for pass in 0..2 {
            for i in (0..n).rev() {
                let ns = &self.nodes[i];
                let mut e: u64 = 30 + 2 * (ns.leaf.len() + ns.named.len() + ns.wmap.len()) as u64;
                for j in ns.strong_targets() {
                    e = e.saturating_add(exp[j]);
                }
                for t in ns.weak_slots() {
                    e = e.saturating_add(match t {
                        WT::Live(j) if *j > i => exp[*j],
                        WT::Live(j) if pass == 1 => prev[*j],
                        _ => 1,
                    });
                }
                exp[i] = e;
            }
            if pass == 0 {
                prev = exp.clone();
            }
        }
        let mut total: u64 = 20;
        for j in self.roots.iter().chain(self.table.iter().map(|(_, j)| j)) {
            total = total.saturating_add(exp[*j]);
        }
        for t in self.early.iter().chain(self.late.iter()) {
            if let WT::Live(j) = t {
                total = total.saturating_add(exp[*j]);
            }
        }
        total
    }
}

pub const NAMES: &[&str] = &[
    "n",
    "alpha beta",
    "",
    "*a1",
    "&a1",
    "null",
    "~",
    "a1",
    "x: y",
    "- z",
    "#c",
    "true",
    "007",
    "ünï",
    // plain (non-wrapper) fields with text that is written as a block scalar next to anchored nodes
    "l1\nl2\n",
    "a\n\nb",
    "lorem ipsum dolor sit amet consectetur adipiscing elit sed do eiusmod tempor incididunt ut labore et dolore magna aliqua",
];
pub const LEAF_TEXTS: &[&str] = &["leaf", "", "*a2", "&a2", "null", "two words", "[x]", "{y}", "12", "k: v", "'q'", "\"dq\""];

pub struct GenParams {
    pub n: usize,
    /// probability (percent) that a node gets another extra strong reference
    pub share_pct: usize,
    pub rec: bool,
    /// expected weak edges per node, in percent
    pub weak_pct: usize,
    pub dangle_pct: usize,
    /// allow weak references that are serialised before their strong target
    pub allow_early: bool,
    pub max_expansion: u64,
    /// every node hangs below the previous one (nesting depth = node count): shared nodes
    /// inside shared nodes inside shared nodes ...
    pub chain: bool,
}

#[derive(Clone, Copy)]
enum Slot {
    One,
    Kids,
    Named,
    InnerA,
    InnerList,
    ChoiceRef,
    ChoicePair,
}

fn add_strong(rng: &mut Rng, ns: &mut NodeSpec, j: usize, n: usize, me: usize, share_pct: usize) {
    let slot = *rng.pick(&[
        Slot::One,
        Slot::Kids,
        Slot::Kids,
        Slot::Named,
        Slot::Named,
        Slot::InnerA,
        Slot::InnerList,
        Slot::ChoiceRef,
        Slot::ChoicePair,
    ]);
    match slot {
        Slot::One if ns.one.is_none() => ns.one = Some(j),
        Slot::InnerA if ns.inner_a.is_none() => ns.inner_a = Some(j),
        Slot::ChoiceRef if ns.choice == ChoiceSpec::Nil => ns.choice = ChoiceSpec::Ref(j),
        Slot::ChoicePair if ns.choice == ChoiceSpec::Nil && rng.chance(share_pct, 100) => {
            let other = if rng.chance(1, 3) || me + 1 >= n { j } else { rng.range(me + 1, n - 1) };
            ns.choice = if rng.bool() { ChoiceSpec::Pair(j, other) } else { ChoiceSpec::Pair(other, j) };
        }
        Slot::Named => {
            let k = format!("k{}", ns.named.len());
            ns.named.push((k, j));
        }
        Slot::InnerList => ns.inner_list.push(j),
        _ => ns.kids.push(j),
    }
}

fn random_spec_once(rng: &mut Rng, p: &GenParams, n: usize) -> Spec {
    let mut s = Spec { title: (*rng.pick(NAMES)).to_string(), ..Default::default() };
    for i in 0..n {
        let mut ns = NodeSpec { name: (*rng.pick(NAMES)).to_string(), inner_flag: rng.bool(), ..Default::default() };
        if rng.chance(1, 6) {
            ns.choice = ChoiceSpec::Num(i as i32 - 3);
        }
        s.nodes.push(ns);
    }
    // tree edges (or orphan -> document root)
    let mut orphans = vec![0usize];
    for j in 1..n {
        if !p.chain && rng.chance(1, 7) {
            orphans.push(j);
            continue;
        }
        let i = if p.chain || rng.bool() { j - 1 } else { rng.below(j) };
        let mut ns = std::mem::take(&mut s.nodes[i]);
        add_strong(rng, &mut ns, j, n, i, p.share_pct);
        s.nodes[i] = ns;
    }
    // extra references = sharing
    for j in 0..n {
        let mut extra = 0;
        while extra < 4 && rng.chance(p.share_pct, 100) {
            extra += 1;
            match rng.below(10) {
                0 => s.roots.push(j),
                1 => {
                    let k = format!("t{}", s.table.len());
                    s.table.push((k, j));
                }
                _ if j > 0 => {
                    let i = rng.below(j);
                    let mut ns = std::mem::take(&mut s.nodes[i]);
                    add_strong(rng, &mut ns, j, n, i, p.share_pct);
                    s.nodes[i] = ns;
                }
                _ => s.roots.push(j),
            }
        }
    }
    // a Pair may have introduced a reference to a node chosen at random: fine (more sharing).
    // document roots: orphans in random positions among the extra root references
    if rng.bool() {
        let mut r = orphans.clone();
        r.extend(s.roots.iter().copied());
        s.roots = r;
    } else {
        s.roots.extend(orphans.iter().copied());
        let mut r = std::mem::take(&mut s.roots);
        rng.shuffle(&mut r);
        s.roots = r;
    }
    if rng.chance(1, 5) && n > 1 {
        // an orphan may also sit in the table only
        let j = *rng.pick(&orphans);
        if s.roots.iter().filter(|x| **x == j).count() > 1 || rng.bool() {
            let k = format!("t{}", s.table.len());
            s.table.push((k, j));
        }
    }
    // shared scalar payloads
    let n_leaves = rng.below(4);
    for _ in 0..n_leaves {
        s.leaves.push((*rng.pick(LEAF_TEXTS)).to_string());
    }
    if n_leaves > 0 {
        for i in 0..n {
            let k = if rng.chance(p.share_pct.max(20), 100) { rng.below(3) } else { 0 };
            for _ in 0..k {
                s.nodes[i].leaf.push(rng.below(n_leaves));
            }
        }
    }
    for (pool, refs) in [(&mut s.lr_pool, &mut s.lr), (&mut s.la_pool, &mut s.la)] {
        let m = rng.below(3);
        for _ in 0..m {
            pool.push((*rng.pick(LEAF_TEXTS)).to_string());
        }
        if m > 0 {
            for _ in 0..rng.below(4) {
                refs.push(rng.below(m));
            }
        }
    }
    // weak edges
    let n_weak = {
        let expect = n * p.weak_pct;
        let base = expect / 100;
        base + usize::from(rng.chance(expect % 100, 100))
    };
    // position of every node in the serialiser's walk over strong edges only, and strong reachability
    let pos = s.strong_preorder();
    let reach = s.strong_reach();
    for _ in 0..n_weak {
        let dangling = rng.chance(p.dangle_pct, 100);
        match rng.below(10) {
            0 => {
                let t = if dangling { WT::Dangling } else { WT::Live(rng.below(n)) };
                s.late.push(t);
            }
            1 if p.allow_early => {
                let t = if dangling { WT::Dangling } else { WT::Live(rng.below(n)) };
                s.early.push(t);
            }
            _ => {
                let i = rng.below(n);
                // slot: 0 wfirst (before every strong field), 1 inner.w (after one/kids/named/inner.a/inner.list),
                // 2 weak, 3 wmap (after every strong field)
                // 4 up (optional parent pointer, before every other field; never dangling, one per node)
                let mut slot = rng.below(5);
                if slot == 4 && (dangling || s.nodes[i].up.is_some()) {
                    slot = 2;
                }
                let t = if dangling {
                    WT::Dangling
                } else if p.allow_early {
                    // anything buildable, including targets that are serialised later
                    if p.rec {
                        WT::Live(rng.below(n))
                    } else if rng.chance(1, 6) {
                        WT::SelfRef
                    } else if i + 1 < n {
                        WT::Live(rng.range(i + 1, n - 1))
                    } else {
                        continue;
                    }
                } else {
                    // only targets whose strong definition has started before this slot is written:
                    // defined before node i (earlier in the walk; in the recursive families also i itself
                    // and its open ancestors), or below node i when the slot follows the strong fields
                    let mut cand: Vec<usize> = Vec::new();
                    for j in 0..n {
                        if pos[j] == usize::MAX || pos[i] == usize::MAX {
                            continue;
                        }
                        let buildable = p.rec || j > i;
                        let earlier = pos[j] < pos[i] || (p.rec && j == i);
                        let below = slot >= 2 && j != i && reach[i] & (1u64 << j) != 0;
                        if buildable && (earlier || below) {
                            cand.push(j);
                        }
                    }
                    if cand.is_empty() {
                        continue;
                    }
                    WT::Live(*rng.pick(&cand))
                };
                let ns = &mut s.nodes[i];
                match slot {
                    0 => ns.wfirst.push(t),
                    1 => ns.inner_w.push(t),
                    2 => ns.weak.push(t),
                    4 => ns.up = Some(t),
                    _ => {
                        let k = format!("w{}", ns.wmap.len());
                        ns.wmap.push((k, t));
                    }
                }
            }
        }
    }
    // recursive families: parent pointers. A node reached through a strong edge gets, with the
    // sharing-independent probability 1/3, an `up` edge to its direct parent, to a farther open
    // ancestor, or to a node that was completed earlier in the walk.
    if p.rec && !p.allow_early {
        let parents: Vec<Vec<usize>> = {
            let mut v = vec![Vec::new(); n];
            for i in 0..n {
                for j in s.nodes[i].strong_targets() {
                    v[j].push(i);
                }
            }
            v
        };
        for i in 0..n {
            if s.nodes[i].up.is_some() || pos[i] == usize::MAX || !rng.chance(1, 3) {
                continue;
            }
            // the parent through which the walk first reaches node i is the one with the smallest position
            // among those that are visited before i
            let first_parent = parents[i].iter().copied().filter(|q| pos[*q] < pos[i]).max_by_key(|q| pos[*q]);
            let ancestors: Vec<usize> = (0..n).filter(|a| *a != i && pos[*a] < pos[i] && reach[*a] & (1u64 << i) != 0).collect();
            let earlier: Vec<usize> = (0..n).filter(|a| pos[*a] < pos[i]).collect();
            let t = match rng.below(3) {
                0 => first_parent,
                1 if !ancestors.is_empty() => Some(*rng.pick(&ancestors)),
                _ if !earlier.is_empty() => Some(*rng.pick(&earlier)),
                _ => None,
            };
            if let Some(j) = t {
                s.nodes[i].up = Some(WT::Live(j));
            }
        }
    }
    s
}

/// Random graph; shrinks the node count until the expansion estimate fits.
pub fn random_spec(rng: &mut Rng, p: &GenParams) -> Spec {
    let mut n = p.n.max(1);
    loop {
        let s = random_spec_once(rng, p, n);
        if s.expansion_estimate() <= p.max_expansion || n <= 2 {
            debug_assert!(s.valid(p.rec));
            return s;
        }
        n = (n * 3 / 4).max(2);
    }
}

// ------------------------------------------------------------------ exhaustive

/// Ways a node i can refer to a node j > i in the exhaustive space.
pub const PAIR_OPTIONS: usize = 7;
/// Reduced alphabet (none | kids | one | named map) used where the full one is too large.
pub const PAIR_OPTIONS_SMALL: usize = 4;

pub fn pairs(n: usize) -> usize {
    n * (n - 1) / 2
}

/// Number of weak configurations for `n` nodes: none, or one weak edge
/// (source node, slot in {wfirst, weak, up}, target in {node 0..n-1, dangling}).
pub fn weak_options(n: usize) -> usize {
    1 + n * 3 * (n + 1)
}

/// Size of the index space: links per pair x root orders x (weak configurations)^weak_edges.
pub fn exhaustive_size(n: usize, weak_edges: usize, pair_options: usize, root_orders: usize) -> usize {
    pair_options.pow(pairs(n) as u32) * root_orders * weak_options(n).pow(weak_edges as u32)
}

pub fn exhaustive_spec(n: usize, weak_edges: usize, pair_options: usize, root_orders: usize, rec: bool, mut idx: usize) -> Option<Spec> {
    let mut s = Spec { title: "exh".into(), ..Default::default() };
    for i in 0..n {
        s.nodes.push(NodeSpec { name: format!("n{i}"), ..Default::default() });
    }
    let mut has_parent = vec![false; n];
    for j in 1..n {
        for i in 0..j {
            let o = idx % pair_options;
            idx /= pair_options;
            let ns = &mut s.nodes[i];
            match o {
                0 => continue,
                1 => ns.kids.push(j),
                2 => {
                    if ns.one.is_some() {
                        return None;
                    }
                    ns.one = Some(j)
                }
                3 => ns.named.push((format!("k{j}"), j)),
                4 => ns.inner_list.push(j),
                5 => {
                    if ns.choice != ChoiceSpec::Nil {
                        return None;
                    }
                    ns.choice = ChoiceSpec::Ref(j)
                }
                _ => {
                    ns.kids.push(j);
                    ns.named.push((format!("k{j}"), j));
                }
            }
            has_parent[j] = true;
        }
    }
    let orphans_first = idx % root_orders == 1;
    idx /= root_orders;
    let orphans: Vec<usize> = (1..n).filter(|j| !has_parent[*j]).collect();
    if orphans_first {
        s.roots.extend(orphans.iter().copied());
        s.roots.push(0);
    } else {
        s.roots.push(0);
        s.roots.extend(orphans.iter().copied());
    }
    // weak edges: configuration 0 = none; with two edges only w1 < w2 is kept (or both none), so
    // that every unordered pair of distinct edges is enumerated once
    let mut prev = 0usize;
    for e in 0..weak_edges {
        let w = idx % weak_options(n);
        idx /= weak_options(n);
        if e > 0 && w != 0 && w <= prev {
            return None;
        }
        if e > 0 && w == 0 && prev != 0 {
            return None; // the single-edge graphs are enumerated by the weak_edges = 1 space
        }
        prev = w;
        if w > 0 {
            let w = w - 1;
            let tgt = w % (n + 1);
            let slot = (w / (n + 1)) % 3;
            let src = w / (3 * (n + 1));
            let t = if tgt == n {
                WT::Dangling
            } else if rec {
                WT::Live(tgt)
            } else if tgt == src {
                WT::SelfRef
            } else if tgt > src {
                WT::Live(tgt)
            } else {
                return None;
            };
            match slot {
                0 => s.nodes[src].wfirst.push(t),
                1 => s.nodes[src].weak.push(t),
                _ => {
                    if t == WT::Dangling || s.nodes[src].up.is_some() {
                        return None;
                    }
                    s.nodes[src].up = Some(t)
                }
            }
        }
    }
    Some(s)
}

// ------------------------------------------------------------------ nested sharing

/// Link slots of the nest family, in the order used by the index decoding.
const NEST_SLOTS: usize = 6;

fn link(ns: &mut NodeSpec, slot: usize, j: usize, key: &str) -> bool {
    match slot {
        0 => ns.kids.push(j),
        1 => ns.named.push((key.to_string(), j)),
        2 => ns.inner_list.push(j),
        3 => {
            if ns.one.is_some() {
                return false;
            }
            ns.one = Some(j)
        }
        4 => {
            if ns.inner_a.is_some() {
                return false;
            }
            ns.inner_a = Some(j)
        }
        _ => {
            if ns.choice != ChoiceSpec::Nil {
                return false;
            }
            ns.choice = ChoiceSpec::Ref(j)
        }
    }
    true
}

/// Bits per chain position of the nest family: the outermost node has 2 (referenced again by the
/// late container X / listed again in Doc.roots); the node at depth k >= 1 has one bit per enclosing
/// chain node (referenced again from it: k bits), one for X (after every enclosing definition is
/// closed), one for a weak reference from the outermost node (while that is open; k >= 2 only) and
/// one for Doc.late (weak, after everything).
fn nest_bits(depth: usize) -> usize {
    let mut b = 2;
    for k in 1..depth {
        b += k + 2 + usize::from(k >= 2);
    }
    b
}

pub fn nest_size(depth: usize, link_slots: usize) -> usize {
    link_slots.pow(depth as u32 - 1) * (1usize << nest_bits(depth))
}

/// Shared nodes inside shared nodes: a chain c0 > c1 > ... > c(depth-1) (each link through one of
/// `link_slots` <= 6 slot kinds: kids, named map, inner.list, one, inner.a, choice::Ref), a leaf below
/// the innermost node, and a container X that is written after the chain is closed. Every subset of
/// the re-references described at `nest_bits` is enumerated. Node indices: X = 0, c_k = k + 1.
pub fn nest_spec(depth: usize, link_slots: usize, mut idx: usize) -> Option<Spec> {
    debug_assert!(link_slots <= NEST_SLOTS && depth >= 2);
    let n = depth + 2;
    let mut s = Spec { title: "nest".into(), ..Default::default() };
    for i in 0..n {
        s.nodes.push(NodeSpec { name: format!("n{i}"), ..Default::default() });
    }
    let c = |k: usize| k + 1;
    // chain links
    for k in 0..depth - 1 {
        let slot = idx % link_slots;
        idx /= link_slots;
        if !link(&mut s.nodes[c(k)], slot, c(k + 1), "link") {
            return None;
        }
    }
    // leaf below the innermost node
    s.nodes[c(depth - 1)].kids.push(n - 1);
    let mut bit = || {
        let b = idx & 1 == 1;
        idx >>= 1;
        b
    };
    s.roots.push(c(0));
    // outermost
    let a_x = bit();
    let a_root = bit();
    let mut extra = 0usize;
    let mut again = |s: &mut Spec, from: usize, to: usize| {
        // rotate over the repeatable slots so that sequences, maps and nested structs all occur
        extra += 1;
        let ns = &mut s.nodes[from];
        match (from + to + extra) % 3 {
            0 => ns.kids.push(to),
            1 => {
                let k = format!("z{}", ns.named.len());
                ns.named.push((k, to));
            }
            _ => ns.inner_list.push(to),
        }
    };
    if a_x {
        again(&mut s, 0, c(0));
    }
    for k in 1..depth {
        for e in (0..k).rev() {
            if bit() {
                again(&mut s, c(e), c(k));
            }
        }
        if bit() {
            again(&mut s, 0, c(k));
        }
        if k >= 2 && bit() {
            s.nodes[c(0)].weak.push(WT::Live(c(k)));
        }
        if bit() {
            s.late.push(WT::Live(c(k)));
        }
    }
    s.roots.push(0);
    if a_root {
        s.roots.push(c(0));
    }
    Some(s)
}
