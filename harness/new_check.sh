#!/bin/bash
# scaffold a check crate: ./new_check.sh c07 [extra-dep ...]
set -e
c="$1"; shift
mkdir -p "checks/$c/src"
{
cat <<EOT
[package]
name = "$c"
edition.workspace = true
version.workspace = true

[dependencies]
vcore.workspace = true
serde-saphyr.workspace = true
serde.workspace = true
serde_json.workspace = true
saphyr-parser.workspace = true
EOT
for d in "$@"; do echo "$d.workspace = true"; done
} > "checks/$c/Cargo.toml"
[ -f "checks/$c/src/main.rs" ] || echo 'fn main(){}' > "checks/$c/src/main.rs"
